#!/bin/bash
find /verif/replays/new -type f -name '*.json' -delete 2>/dev/null; true

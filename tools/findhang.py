"""Development helper: find a generated case on which a check function does not return.
usage: findhang.py <check module> <seed>   (uses module.PROFILE and module.check_case)"""
import importlib
import json
import signal
import sys

sys.path.insert(0, "/repo")
sys.path.insert(0, "/verif")
import hypothesis  # noqa: E402
from hypothesis import HealthCheck, Phase, given, settings, strategies as st  # noqa: E402

from vlib.progen import methods  # noqa: E402

mod = importlib.import_module("checks." + sys.argv[1])


class Hang(Exception):
    pass


def h(s, f):
    raise Hang()


signal.signal(signal.SIGALRM, h)
found = []


@hypothesis.seed(int(sys.argv[2]))
@settings(max_examples=400, database=None, deadline=None, phases=[Phase.generate],
          suppress_health_check=list(HealthCheck))
@given(st.fixed_dictionaries({"method": methods(mod.PROFILE), "reverse": st.booleans(), "steps": st.integers(1, 3),
                              "plan": st.just({"max_steps": 2, "max_events": 60})}))
def t(case):
    if found:
        return
    signal.alarm(10)
    try:
        mod.check_case(case)
    except Hang:
        found.append(case)
    finally:
        signal.alarm(0)


t()
if found:
    json.dump(found[0], open("/tmp/hang-%s-%s.json" % (sys.argv[1], sys.argv[2]), "w"))
    print("HANG found")
else:
    print("none")

#!/venv/bin/python
"""Prints the table of DESIGN.md section 3 from evidence/*.json (quick tier, as committed) and a log of thorough
runs ("CNN thorough: N cases, M distinct non-trivial, ... Ts" lines).  usage: budget_table.py [thorough.log]"""
import glob
import json
import re
import sys

thor = {}
if len(sys.argv) > 1:
    for ln in open(sys.argv[1]):
        m = re.match(r"(C\d\d) thorough: (\d+) cases, (\d+) distinct non-trivial, .*?([\d.]+)s", ln)
        if m:
            thor[m.group(1)] = (int(m.group(2)), int(m.group(3)), float(m.group(4)))
print("| id | quick: cases / distinct non-trivial / wall | thorough: cases / distinct non-trivial / wall |")
print("|----|--------------------------------------------|-----------------------------------------------|")
for f in sorted(glob.glob("/verif/evidence/C*.json")):
    e = json.load(open(f))
    pid = e["property_id"]
    cov = e["coverage"]
    q = "%s / %s / %.0f s" % ("{:,}".format(cov["evaluations"]).replace(",", " "),
                             "{:,}".format(cov["distinct_nontrivial"]).replace(",", " "), e["wall_s"])
    t = thor.get(pid)
    ts = "%s / %s / %.0f s" % ("{:,}".format(t[0]).replace(",", " "), "{:,}".format(t[1]).replace(",", " "), t[2]) if t else "-"
    print("| %s | %s | %s |" % (pid, q, ts))

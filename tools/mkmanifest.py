#!/venv/bin/python
"""Regenerates MANIFEST.json from the table below (run after adding a check)."""
import json
import os

ROOT = os.path.dirname(os.path.dirname(os.path.abspath(__file__)))

# id -> (technique, level text, level note, design ref)
CHECKS = {
    "C06": ("exhaustive enumeration of small trees + Hypothesis random trees; oracle = guarded-trace equality under all flag valuations",
            "Every tree with <=5 (quick) / <=7 (thorough) nodes over {Block, IfThen, IfThenElse, leaf, Null} x 6 condition forms is "
            "simplified and compared with the original by an independent trace walker under all valuations, plus random larger trees "
            "with loops and 'and' conditions. Exhaustive below the bound, sampled above it.",
            "Trusts the trace semantics of the node types as documented in dag_ast.py and that leaves do not assign flags (C10's single-definition rule).",
            "DESIGN.md 2/C06"),
}

ALL = ["C%02d" % i for i in range(1, 21)]


def main():
    checks = []
    for pid in ALL:
        if pid not in CHECKS or not os.path.exists(os.path.join(ROOT, "checks", pid.lower() + ".py")):
            continue
        tech, text, note, ref = CHECKS[pid]
        checks.append(dict(
            property_id=pid,
            quick_cmd="./check %s quick" % pid,
            thorough_cmd="./check %s thorough" % pid,
            evidence_file="evidence/%s.json" % pid,
            replay_cmd_template="./check %s --replay {path}" % pid,
            engine="vlib",
            level_claimed=dict(category="exploration", text=text, design_ref=ref),
            level_note=note,
            technique=tech,
        ))
    claimed = {c["property_id"] for c in checks}
    na = [dict(property_id=p, reason="check not built yet in this round (planned, see DESIGN.md section 6); nothing is claimed for it")
          for p in ALL if p not in claimed]
    notes_fn = os.path.join(ROOT, "tools", "manifest_notes.txt")
    notes = open(notes_fn).read() if os.path.exists(notes_fn) else ""
    man = dict(
        version=1,
        setup_cmd="./setup.sh",
        hooks=dict(guard="INDUCER_DAGRT_VERIF",
                   enable="no hooks are needed: checks import /repo's working tree directly (VERIF_REPO, default /repo) and observe through public entry points",
                   baseline_off_cmd="cd /repo && /venv/bin/python -m pytest -ra -q -p no:cacheprovider --timeout=900 --continue-on-collection-errors",
                   source_commits=[], add_only=True),
        engines=[dict(name="vlib", path="vlib/", serves_properties=sorted(claimed),
                      kind_free_text="Hypothesis-driven generators + exhaustive enumerators, independent oracles, collect-then-minimise, replay files")],
        checks=checks,
        notes=notes,
        not_applicable=na,
    )
    with open(os.path.join(ROOT, "MANIFEST.json"), "w") as f:
        json.dump(man, f, indent=1)
    print("MANIFEST.json: %d checks, %d not claimed" % (len(checks), len(na)))


if __name__ == "__main__":
    main()

#!/venv/bin/python
"""Regenerates MANIFEST.json from the table below (run after adding a check)."""
import json
import os

ROOT = os.path.dirname(os.path.dirname(os.path.abspath(__file__)))

# id -> (technique, level text, level note, design ref)
CHECKS = {
    "C01": ("Hypothesis-generated builder programs x states x run plans; oracle = three-way exact comparison (program-order reference executor / NumpyInterpreter / generated Python class)",
            "Typed, def-before-use builder programs (every statement kind, loops incl. zero-trip, if/else nesting, early exits, user functions, exact built-ins, 1-3 phases) are "
            "executed by an independent exact reference executor, by the interpreter and by the emitted class; events, persistent state and next phase after every step and the kind "
            "of raised error must be equal. Sampled; exact (dyadic) arithmetic so equality is exact and guards cannot flip.",
            "Trusts vlib/refexec.py as the meaning of 'the builder calls one after another' (a plain array copy makes an independent array, as the recorded dependencies and the Fortran target treat it; the aliasing of the Python back ends is known finding array-alias); runs are compared up to the first step that leaves the exact domain.",
            "DESIGN.md 2/C01"),
    "C02": ("Hypothesis-generated single-phase builder programs x all/sampled linear extensions of the recorded graph; oracle = independent statement-level executor vs program-order reference",
            "For each generated program (dense name reuse; reads in every syntactic position; non-assignments interleaved) the recorded depends_on/condition graph is executed in every linear "
            "extension when there are <= 400 (quick) / 5000 (thorough), otherwise in adversarial and random samples; events, exit kind and final values of all variables must equal the "
            "program-order run, no unset variable may be read, and builder-issued names must be new. Exhaustive over schedules for small programs, sampled otherwise.",
            "Calls are assumed pure (as the builder does); temporaries are not compared after an early exit; statement executor and reference are mine (vlib/sched.py, vlib/refexec.py).",
            "DESIGN.md 2/C02"),
    "C08": ("Hypothesis-generated programs run through the real interpreter with a recording variable store; oracle = observed accesses within declared read/write sets, identity-mapping invariance",
            "Every (statement, state) execution over 1-3 steps of generated programs is observed through a dict subclass plus array snapshots (element writes); observed reads must lie in declared "
            "reads+writes+loop counters and assignments in declared writes+loop counters; hand-written-style guard variants are guard-evaluated; map_expressions with two identity mappers must change nothing. Sampled.",
            "Observation relies on the interpreter going through its context dict for every variable access (it does: EvaluationMapper.map_variable, exec_*).",
            "DESIGN.md 2/C08"),
    "C09": ("Hypothesis-generated typed programs: infer_kinds table vs values the real interpreter stores; exhaustive built-in table (kinds x values) vs builtins_python",
            "On programs where inference succeeds every written variable must have a non-None kind and every stored value (recording store, 1-3 steps, program order and reversed presentation) must conform to it; "
            "complex scalars/arrays, loop counters, user-type vectors (tagged ndarray subclass), powers and re-use of temporary names with other kinds in other phases are generated. All 13 built-ins are compared "
            "with their declared result kinds over every argument-kind tuple with concrete values.",
            "int conforms to Scalar(real); exponents are non-negative integer constants; programs on which inference raises are counted and skipped.",
            "DESIGN.md 2/C09"),
    "C11": ("fault enumeration: every (call site, invocation index) of generated programs is made to raise once, in both Python back ends; oracle = identity, clean-up, allowed-value sets from the reference trace + recorded graph, resume-vs-fresh differential",
            "For every generated program and 1-4 step plan the reference run lists all invocations of every user-function call site; each is faulted once in the interpreter and in the generated class. "
            "The same exception object must surface, no temporary may remain, each persistent variable must hold its pre-step value or a reference value of a write that does not depend on the failing statement "
            "(element-wise mixes for interrupted loops), the next phase must be the default successor, and continuing for <= 3 steps must equal a fresh stepper started from the copied state. Complete over fault points per program; programs sampled.",
            "Dependence is read from the recorded graph (C02); the reference trace comes from vlib/refexec.py; resumption is skipped when values are about to leave the exact domain.",
            "DESIGN.md 2/C11"),
    "C15": ("Hypothesis-generated programs re-generated in child processes under different PYTHONHASHSEED x container orders x phases-dict orders x generation histories; oracle = equal sha256 digests of Python text, Fortran text (default and instrumented) and interpreter history",
            "Each program is rebuilt in child processes (4 hash seeds quick, 16 thorough) with its statements as list / reversed / shuffled / frozenset and the phases dict in both insertion orders; children walk the program list in opposite directions, "
            "so each program is generated cold and after separate generator objects produced other code in the same process. Every digest of a program must be equal; a mismatch is reported with the first differing line. "
            "One defect (ArrayType's process-global default index-variable counter) is pinned as a known finding; user types are declared with explicit index_vars.",
            "The method description is the set of phases and statements; texts are compared by hash and diffed only on disagreement.",
            "DESIGN.md 2/C15"),
    "C16": ("Hypothesis-generated pairs of programs with clashing temporaries, loop counters, flags and ids x predicates; oracle = structural renaming check (injective rho/sigma) + interpreter differential fused vs alone",
            "fuse_two_dags is run on generated pairs; the fusion must contain A unchanged and B under an injective variable renaming that is the identity on persistent names / names the predicate rejects and whose images avoid A's names, "
            "with ids, depends_on, guards and loop counters renamed consistently; then A alone, B alone and the fusion are executed for 1-3 steps and private persistent variables compared. Sampled.",
            "Premise of the property enforced by construction (disjoint written persistent variables, <t>/<dt> not assigned, no early exits); interpreter trusted via C01.",
            "DESIGN.md 2/C16"),
    "C13": ("exhaustive pairs of short names + Hypothesis rule-based state machines per target (lookup_var / lookup_function / make_unique / clear_locals) + end-to-end programs compiled by Python and gfortran; oracle = model of first answers with stability, distinctness, legality, reserved-name and storage-class invariants",
            "All ordered pairs of names of length <= 2 (quick) / <= 3 (thorough) over an 8-symbol adversarial alphabet are looked up in fresh name managers of both targets; rule-based machines issue lookups of variables, functions and unique names "
            "from a pool of case/punctuation variants, generated-name look-alikes, keywords and 80-character names, and every history is checked for stability, pairwise distinctness (case-folded and across all maps for Fortran), legality "
            "(Python identifier/keyword rules, Fortran 2003 rules), reserved identifiers and storage class; drawn name sets are also used in a real program that is executed (Python) and syntax-checked (gfortran).",
            "Names starting with dagrt_ are excluded as documented; legality is judged against the encoded language rules and the two compilers present here.",
            "DESIGN.md 2/C13"),
    "C14": ("exhaustive unify laws over the 9-kind universe (81 pairs, 729 triples) + Hypothesis programs and adversarial statement lists x permutations x PYTHONHASHSEED child processes; oracle = equal tables",
            "Idempotence, commutativity and associativity 'wherever defined' are checked on all pairs/triples; generated programs and def-order-free adversarial statement lists are inferred in 8 (quick) / 24 (thorough) "
            "presentation orders of statements and phases, and re-inferred from the builder's frozensets in child processes under 4/16 hash seeds; tables or failure classes must coincide.",
            "Programs assigning incompatible kinds to one variable are a pinned known finding and are not generated; exception types of failing inferences are not compared.",
            "DESIGN.md 2/C14"),
    "C10": ("exhaustive enumeration of small methods (graphs x dangling/cross-phase edges x switch targets x flag patterns) + Hypothesis random methods; oracle = independent well-formedness checker",
            "verify_code is compared with an independent checker on every digraph on <=4 statements (thorough; <=3 quick), every dependency-set assignment over own/dangling/other-phase ids on <=3 statements, "
            "and switch/flag variants; accepted methods are pushed through the interpreter and both generators; a 20 s alarm per case decides 'never hangs'. Exhaustive below the bound, sampled above.",
            "Ids unique within a phase; trivial statements so only dependency resolution can fail downstream; liveness only as a bound.",
            "DESIGN.md 2/C10"),
    "C03": ("Hypothesis-generated Fortran-subset programs: emitted module + generated driver compiled with gfortran and run; oracle = exact differential against NumpyInterpreter after every run() call (reference executor as referee)",
            "Programs of the Fortran-supported subset are generated, emitted by fortran.CodeGenerator, compiled together with a driver that dumps every field of dagrt_state_type after each of 1-5 run() calls (ES25.17E3 round-trips doubles), "
            "and compared exactly with the interpreter's persistent variables, last yielded value/time/time-id per component and next phase; compilation failure, non-zero exit or stderr output are violations. 640 programs quick, 24 000 thorough. "
            "Two defects are pinned as known findings (1-based whole-array results; min/max over loop counters) and excluded by construction.",
            "Exact dyadic values; cases where interpreter and my reference executor disagree are skipped as C01's business; calls inside yielded expressions are outside the supported subset (the generator raises for them).",
            "DESIGN.md 2/C03"),
    "C12": ("Hypothesis-generated memory-traffic programs compiled with -fsanitize=address,undefined -fcheck=pointer,bounds and run for 2-6 run() calls + shutdown; oracle = sanitizer reports, shutdown's leak lines, exit status",
            "Programs biased to user-type temporaries (moves, overwrites, last uses in guards, yields, loops, before early exits) are compiled with ASan/LSan/UBSan and driven through completed, failed and switched steps, then shutdown; any "
            "sanitizer report, 'leaked reference' line, Fortran run-time error or non-zero exit is a violation. A LeakSanitizer self-test runs first. 192 programs quick, 6400 thorough.",
            "Programs that Raise are excluded (Fortran 'stop' skips clean-up by design); values are C03's business.",
            "DESIGN.md 2/C12"),
    "C04": ("Hypothesis-generated acyclic phases run through a recording NumpyInterpreter subclass, and ExecutionController driven directly with scripted dynamic requests; oracle = history invariants over the callback log",
            "Harness A observes evaluate_condition/exec_* callbacks of the real interpreter on hand-written phases (guards, Nops, FailSteps, random ids): no statement twice, dependencies visited first, every statement visited in a step "
            "that is not cut short, exec callbacks exactly for true guards. Harness B drives the controller with drawn partial roots and requests returned from exec callbacks: same two invariants, everything requested is eventually "
            "visited, and requests with their unvisited dependencies precede the rest of the plan (the newest request winning). Sampled.",
            "Well-formed phases only (C10's domain); iteration order of dependency sets is varied through random ids under the fixed hash seed.",
            "DESIGN.md 2/C04"),
    "C05": ("Hypothesis-generated hand-written and builder-made phases x ALL guard valuations; oracle = independent trace walker + recording generic backend walker + independent graph closure; container-order metamorphic relation",
            "create_ast_from_phase is checked on random DAGs (ids uncorrelated with edges; guards over <= 4 flags incl. stacked negations and constants; loop nests incl. triangular ones; Nops) under every valuation: executed leaves = "
            "non-Nop statements whose guard holds, once each, inside exactly their declared loops (nest order constrained only where a bound uses another counter), ordered consistently with the transitive dependency closure, accepted "
            "by the walker all back ends share, and structurally identical for 6 storage orders incl. frozenset. Exhaustive over valuations, sampled over phases.",
            "Trace semantics of guards as free flags; loops compared as sets as the documentation allows.",
            "DESIGN.md 2/C05"),
    "C07": ("Hypothesis-generated programs lowered and rewritten by each pass alone and in the Fortran order; oracle = independent value-mode tree walker (values of original variables, multiset of external calls, no read-before-set, unique ids)",
            "Each phase of generated programs (nested calls, nested conditional expressions, self-updates, loops, guards, user names resembling generated temporaries) is lowered, rewritten by 5 pipelines and executed by my walker from 2 "
            "valuations taken at phase entry in a reference run; a hand-made variant (suffix of the phase with statement-level guards, optionally hand-written guard expressions, prefix variables as read-only inputs) goes through the same "
            "pipelines. Sampled. One defect (calls hoisted out of conditional-expression branches) is pinned as a known finding and its shape excluded by construction.",
            "Tree meaning = what structured back ends make of it (node guards/loops; wrapped statements unconditional); user functions pure; exact arithmetic.",
            "DESIGN.md 2/C07"),
    "C06": ("exhaustive enumeration of small trees + Hypothesis random trees; oracle = guarded-trace equality under all flag valuations",
            "Every tree with <=5 (quick) / <=7 (thorough) nodes over {Block, IfThen, IfThenElse, leaf, Null} x 6 condition forms is "
            "simplified and compared with the original by an independent trace walker under all valuations, plus random larger trees "
            "with loops and 'and' conditions. Exhaustive below the bound, sampled above it.",
            "Trusts the trace semantics of the node types as documented in dag_ast.py and that leaves do not assign flags (C10's single-definition rule).",
            "DESIGN.md 2/C06"),
    "C17": ("Hypothesis-constructed template/target pairs (substitution + permutation + identity deletion) and random pairs; oracle = substitute-back evaluation under random-oracle function tables",
            "match() is run on generated pairs with explicit/defaulted free names, bound names and consistent/inconsistent pre-matches; a returned "
            "substitution must bind only free names, agree with the pre-match and make the template evaluate equal to the target at 8 exact rational "
            "points x 2 function interpretations; any exception other than ValueError is a violation. Sampled, not exhaustive; completeness of matching is not asserted.",
            "Trusts my evaluator/random oracle (vlib/tree.py); equality is decided by evaluation at 16 points, so a wrong match that agrees on all of them would be missed (negligible for polynomial terms).",
            "DESIGN.md 2/C17"),
    "C18": ("Hypothesis-generated expressions x free-variable subsets; oracle = substitute-back evaluation + syntactic freeness + assignment bookkeeping",
            "collapse_constants() is run with an injective fresh-name callback; the hoisted assignments substituted back must evaluate equal to the original at "
            "8 exact rational points x 2 interpretations, no hoisted expression may mention a free variable (function symbols included), and every created variable "
            "must be assigned exactly once. Sampled.",
            "Trusts my evaluator; points where a hoisted subexpression is undefined (division by zero in an untaken branch) are skipped.",
            "DESIGN.md 2/C18"),
    "C19": ("Hypothesis-generated well-typed expression trees and backtick names; oracle = parse(str(e)) round trip: equal text, equal variables, equal values",
            "Expressions over the listed constructs (depth <= 6) are printed and re-parsed; text, variable sets and values at 8 points x 2 interpretations must agree, "
            "exceptions (division by zero) must coincide; backtick names over [<>:a-zA-Z0-9_]+ must denote the plain variable alone and inside sums, calls, callees and subscripts. "
            "Two printer defects that live in pymbolic are pinned as known findings and their shapes are excluded by construction (counted).",
            "Trusts vlib/tree.py conversion and evaluation; structural equality deliberately not required.",
            "DESIGN.md 2/C19"),
    "C20": ("Hypothesis-generated code lines / Python statements x level x width x padding; oracle = own quote-aware tokenizer, width bound, ast.parse equality",
            "wrap_line of both targets is run on generated token sequences (quoted strings with blanks alone, glued before and after punctuation, long tokens) for "
            "levels 0-6 and widths 8-132: re-joined tokens equal the input's, no string literal spans two lines, multi-token lines fit, non-final lines end in the marker, "
            "and generated Python statements parse to the same AST after wrapping. Sampled.",
            "Token = blank-separated chunk outside quotes (for the width clause) / word or string literal (for the sequence clause); inputs have balanced, unescaped quotes.",
            "DESIGN.md 2/C20"),
}

ALL = ["C%02d" % i for i in range(1, 21)]


def main():
    checks = []
    for pid in ALL:
        if pid not in CHECKS or not os.path.exists(os.path.join(ROOT, "checks", pid.lower() + ".py")):
            continue
        tech, text, note, ref = CHECKS[pid]
        checks.append(dict(
            property_id=pid,
            quick_cmd="./check %s quick" % pid,
            thorough_cmd="./check %s thorough" % pid,
            evidence_file="evidence/%s.json" % pid,
            replay_cmd_template="./check %s --replay {path}" % pid,
            engine="vlib",
            level_claimed=dict(category="fault_enumeration" if pid == "C11" else "exploration", text=text, design_ref=ref),
            level_note=note,
            technique=tech,
        ))
    claimed = {c["property_id"] for c in checks}
    na = [dict(property_id=p, reason="no check registered for it; nothing is claimed")
          for p in ALL if p not in claimed]
    notes_fn = os.path.join(ROOT, "tools", "manifest_notes.txt")
    notes = open(notes_fn).read() if os.path.exists(notes_fn) else ""
    man = dict(
        version=1,
        setup_cmd="./setup.sh",
        hooks=dict(guard="INDUCER_DAGRT_VERIF",
                   enable="no hooks are needed: checks import /repo's working tree directly (VERIF_REPO, default /repo) and observe through public entry points",
                   baseline_off_cmd="cd /repo && /venv/bin/python -m pytest -ra -q -p no:cacheprovider --timeout=900 --continue-on-collection-errors",
                   source_commits=[], add_only=True),
        engines=[dict(name="vlib", path="vlib/", serves_properties=sorted(claimed),
                      kind_free_text="Hypothesis-driven generators + exhaustive enumerators, independent oracles, collect-then-minimise, replay files")],
        checks=checks,
        notes=notes,
        not_applicable=na,
    )
    with open(os.path.join(ROOT, "MANIFEST.json"), "w") as f:
        json.dump(man, f, indent=1)
    print("MANIFEST.json: %d checks, %d not claimed" % (len(checks), len(na)))


if __name__ == "__main__":
    main()

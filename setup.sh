#!/bin/bash
# offline set-up: hypothesis into /venv (no-op when already there), output dirs
cd "$(dirname "$0")" || exit 2
if ! /venv/bin/python -c "import hypothesis" 2>/dev/null; then
  PIP_NO_INDEX=1 /venv/bin/pip install --no-index --find-links /opt/veriftools/wheels hypothesis || exit 1
fi
mkdir -p evidence replays/new
/venv/bin/python -c "import hypothesis, numpy, pymbolic, pytools, mako; print('setup ok: hypothesis', hypothesis.__version__)" || exit 1

#!/venv/bin/python
"""Hand-written mutants (the ones listed per property in DESIGN.md section 2).

Creates selftest/mutants/<ID>-m<k>/patch.diff from (file, old text, new text) triples by
editing a scratch worktree of /repo HEAD; checks that the pinned test suite still passes
with the mutant (a mutant the suite kills is dropped).  usage: make_mutants.py
"""
import json
import os
import re
import shutil
import subprocess
import tempfile

ROOT = "/verif/selftest/mutants"

MUTANTS = {
    "C01-m1": ("dagrt/exec_numpy.py", "            self.next_phase = cur_state.next_phase\n", "            pass\n",
               "interpreter never advances to the default successor"),
    "C01-m2": ("dagrt/codegen/expressions.py", "then=self.rec(expr.then, PREC_LOGICAL_OR),", "then=self.rec(expr.else_, PREC_LOGICAL_OR),",
               "generated Python conditional expression yields the else value in both branches"),
    "C01-m3": ("dagrt/codegen/expressions.py", "        for name, arg in kwargs.items():\n            arg_strs_dict[name] = self.rec(arg, PREC_NONE)\n",
               "        for name, arg in sorted(kwargs.items()):\n            arg_strs_dict[len(arg_strs_dict)] = self.rec(arg, PREC_NONE)\n",
               "generated Python passes keyword arguments of built-ins positionally in name order"),
    "C02-m1": ("dagrt/language.py", "            if var in written_variables:\n                continue\n            self._reader_map.setdefault(var, set()).add(stmt_id)",
               "            if var in written_variables or var.startswith(\"<p>\"):\n                continue\n            self._reader_map.setdefault(var, set()).add(stmt_id)",
               "reads of <p> variables are not remembered (no WAR edges for them)"),
    "C02-m2": ("dagrt/language.py", "            written_variables.add(self._EXECUTION_STATE)\n", "            pass\n",
               "non-assignments no longer write the execution-state token"),
    "C03-m1": ("dagrt/codegen/fortran.py", "                    self.expr(ubound-1)),", "                    self.expr(ubound)),",
               "Fortran do loops run one iteration too many"),
    "C03-m2": ("dagrt/codegen/expressions.py", "                    \" .and. \", expr.children, PREC_LOGICAL_AND),", "                    \" .or. \", expr.children, PREC_LOGICAL_AND),",
               "Fortran prints .or. for LogicalAnd"),
    "C04-m1": ("dagrt/language.py", "            stmt_id = self.plan.pop(0)\n", "            stmt_id = self.plan.pop()\n",
               "plan consumed from the end"),
    "C05-m1": ("dagrt/codegen/dag_ast.py", "            stack.extend(\n                    sorted(statement_map[statement].depends_on))",
               "            stack.extend(\n                    statement_map[statement].depends_on)",
               "dependencies pushed in set order"),
    "C05-m2": ("dagrt/codegen/dag_ast.py", "        if isinstance(statement, Nop):\n            continue\n", "        if isinstance(statement, Nop) or statement.condition is False:\n            continue\n        if getattr(statement, 'loops', None) and len(statement.loops) > 1 and statement.condition is not True:\n            statement = statement.copy(loops=statement.loops[:1])\n",
               "guarded statements lose their inner loops"),
    "C06-m1": ("dagrt/codegen/dag_ast.py", "                    and current_child.condition == next_child.condition:", "                    and True:",
               "adjacent conditionals merged without comparing conditions"),
    "C06-m2": ("dagrt/codegen/dag_ast.py", "        if isinstance(else_, IfThenElse) and condition == else_.condition:\n            else_ = else_.else_", "        if isinstance(else_, IfThenElse) and condition == else_.condition:\n            else_ = else_.then",
               "nested same-condition collapse takes the wrong branch"),
    "C07-m1": ("dagrt/codegen/transform.py", "                depends_on=base_deps | frozenset(sub_extra_deps),\n                id=tmp_stmt_id)\n\n        self.new_statements.append(new_stmt)\n\n        from pymbolic import var\n        return var(tmp_var_name)\n\n    def map_call(self, expr, base_condition, base_deps, extra_deps):\n        return type(expr)(",
               "                depends_on=base_deps | frozenset(sub_extra_deps),\n                id=tmp_stmt_id)\n\n        self.new_statements.insert(0, new_stmt)\n\n        from pymbolic import var\n        return var(tmp_var_name)\n\n    def map_call(self, expr, base_condition, base_deps, extra_deps):\n        return type(expr)(",
               "argument temporaries emitted before the temporaries they read"),
    "C08-m1": ("dagrt/language.py", "        for par in self.kw_parameters.values():\n            result |= get_variables(par)\n", "",
               "keyword parameters missing from the read set of call statements"),
    "C09-m1": ("dagrt/data.py", "    def map_quotient(self, expr):\n        return self.map_product_like((expr.numerator, expr.denominator))", "    def map_quotient(self, expr):\n        return self.rec(expr.numerator)",
               "quotient kind taken from the numerator only"),
    "C10-m1": ("dagrt/codegen/analysis.py", "                if neighbor in visiting:\n", "                if neighbor in visiting and neighbor != top.id:\n",
               "self-loops not reported as cycles"),
    "C11-m1": ("dagrt/exec_numpy.py", "            self.exec_controller.reset()\n", "            pass\n",
               "plan not reset at the start of a step"),
    "C12-m1": ("dagrt/codegen/fortran.py", "        self.emit_traceable(\n            \"{tgt_refcnt} = {tgt_refcnt} + 1\"\n            .format(\n                tgt_refcnt=self.name_manager.name_refcount(assignee_sym)))\n", "",
               "moves do not increment the reference count"),
    "C13-m1": ("dagrt/codegen/utils.py", "    result = \"\".join([c if c in _ident_chars else \"_\" for c in name])", "    result = \"\".join([c for c in name if c in _ident_chars])",
               "illegal characters stripped instead of replaced"),
    "C14-m1": ("dagrt/data.py", "                    if tbl[name] != kind:\n                        self._changed = True\n                        tbl[name] = kind", "                    if tbl[name] != kind:\n                        self._changed = True\n                        tbl[name] = kind if not isinstance(kind, Array) else tbl[name]",
               "an array kind never replaces an earlier scalar kind"),
    "C15-m1": ("dagrt/codegen/fortran.py", "        for identifier, sym_kind in sorted(sym_table.items()):\n            self.emit_variable_deinit(identifier, sym_kind)\n", "        for identifier, sym_kind in set(sym_table.items()):\n            self.emit_variable_deinit(identifier, sym_kind)\n",
               "exit-label releases emitted in set order"),
    "C16-m1": ("dagrt/transform.py", "                        (subst2[ident].name if ident in subst2 else ident,\n                            start, end)", "                        (ident, start, end)",
               "loop counters of the second method not renamed"),
    "C17-m1": ("dagrt/expression.py", "        return self.map_modulo_identity(expr, other, urecs, mapper, 1)", "        return self.map_modulo_identity(expr, other, urecs, mapper, 0)",
               "identity element 0 used for products"),
    "C18-m1": ("dagrt/expression.py", "        result = expr not in self.free_variables\n", "        result = expr in self.free_variables\n",
               "free variables classified as constants"),
    "C19-m1": ("dagrt/expression.py", "            if pstate.is_next(_identifier):\n                identifier += pstate.next_str_and_advance()\n", "",
               "tagged identifier loses its name part"),
    "C20-m1": ("dagrt/codegen/utils.py", "            if next_len < width or (not has_next_word and next_len == width):", "            if next_len <= width:",
               "fit test ignores the continuation marker column"),
}


def sh(cmd, cwd=None, env=None):
    p = subprocess.run(cmd, cwd=cwd, env=env, stdout=subprocess.PIPE, stderr=subprocess.STDOUT, text=True)
    return p.returncode, p.stdout


def main():
    os.makedirs(ROOT, exist_ok=True)
    for name, (fn, old, new, what) in sorted(MUTANTS.items()):
        wt = tempfile.mkdtemp(prefix="mk-%s-" % name, dir="/tmp")
        os.rmdir(wt)
        sh(["git", "-C", "/repo", "worktree", "add", "--detach", wt, "HEAD"])
        try:
            p = os.path.join(wt, fn)
            s = open(p).read()
            if s.count(old) != 1:
                print("%s: anchor text found %d times, skipped" % (name, s.count(old)))
                continue
            open(p, "w").write(s.replace(old, new))
            rc, diff = sh(["git", "diff"], cwd=wt)
            env = dict(os.environ, PYTHONPATH=wt, PYTHONDONTWRITEBYTECODE="1")
            rc, out = sh(["/venv/bin/python", "-m", "pytest", "-q", "-p", "no:cacheprovider", "--timeout=900"], cwd=wt, env=env)
            m = re.search(r"(\d+) passed", out)
            if rc != 0 or not m or int(m.group(1)) != 116:
                print("%s: killed by the pinned suite (%s), dropped" % (name, out.strip().splitlines()[-1]))
                shutil.rmtree(os.path.join(ROOT, name), ignore_errors=True)
                continue
            d = os.path.join(ROOT, name)
            os.makedirs(d, exist_ok=True)
            open(os.path.join(d, "patch.diff"), "w").write(diff)
            json.dump({"property": name.split("-")[0], "summary": what, "files": [fn],
                       "origin": "hand-written (DESIGN.md section 2 mutant lists)",
                       "suite_with_change": out.strip().splitlines()[-1]}, open(os.path.join(d, "meta.json"), "w"), indent=1)
            print("%s: ok" % name)
        finally:
            sh(["git", "-C", "/repo", "worktree", "remove", "--force", wt])
            shutil.rmtree(wt, ignore_errors=True)


if __name__ == "__main__":
    main()

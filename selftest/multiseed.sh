#!/bin/bash
# Development aid: every quick check at several seeds on the unchanged tree, expecting exit 0.
# usage: selftest/multiseed.sh "2 3 4 5" [ids...]
cd /verif
seeds=${1:-"2 3 4 5"}; shift
ids=${@:-$(seq -f "C%02g" 1 20)}
for s in $seeds; do
  for id in $ids; do
    out=$(VERIF_SEED=$s VERIF_EVIDENCE_DIR=/tmp/multiseed-ev ./check $id quick 2>&1 | grep -v condarc)
    rc=$?
    echo "seed $s $id: $(echo "$out" | tail -1)"
    echo "$out" | grep -E "^(VIOLATION|----|HARNESS)" -A1 | head -6
  done
done
rm -rf /tmp/multiseed-ev

#!/venv/bin/python
"""Run the registered quick (or thorough) checks against the seeded changes in /verif/seeded/.

usage: run_seeded.py [--tier quick|thorough] [--jobs N] [--all-checks] [name ...]

For each seeded/<ID>-<X>/patch.diff: scratch worktree of /repo HEAD under /tmp,
apply, run ./check <ID> with VERIF_REPO pointing at the worktree (the same
check code, reading the changed tree), expect exit 1; remove the worktree.
Development evidence only (not a registered check).  Results: selftest/RESULTS.md
"""
import concurrent.futures
import json
import os
import shutil
import subprocess
import sys
import tempfile
import time

ROOT = "/verif"


def sh(cmd, cwd=None, env=None, timeout=900):
    p = subprocess.run(cmd, cwd=cwd, env=env, stdout=subprocess.PIPE, stderr=subprocess.STDOUT,
                       timeout=timeout, text=True)
    return p.returncode, p.stdout


SEEDDIR = ["seeded"]


def one(name, tier, extra_ids):
    pid = name.split("-")[0]
    patch = os.path.join(ROOT, SEEDDIR[0], name, "patch.diff")
    wt = tempfile.mkdtemp(prefix="mut-%s-" % name, dir="/tmp")
    os.rmdir(wt)
    rc, out = sh(["git", "-C", "/repo", "worktree", "add", "--detach", wt, "HEAD"])
    if rc != 0:
        return name, {"error": out[-300:]}
    res = {}
    try:
        rc, out = sh(["git", "apply", patch], cwd=wt)
        if rc != 0:
            return name, {"error": "patch does not apply: " + out[-300:]}
        for cid in [pid] + list(extra_ids):
            if not os.path.exists(os.path.join(ROOT, "checks", cid.lower() + ".py")):
                res[cid] = "no check"
                continue
            t0 = time.time()
            env = dict(os.environ, VERIF_REPO=wt, VERIF_EVIDENCE_DIR=wt + "-evidence")
            rc, out = sh([os.path.join(ROOT, "check"), cid, tier], cwd=ROOT, env=env)
            viol = [l for l in out.splitlines() if l.startswith("VIOLATION")]
            res[cid] = "exit %d, %d VIOLATION line(s), %.0fs" % (rc, len(viol), time.time() - t0)
            if rc == 1:
                msgs = [l for l in out.splitlines() if l and not l.startswith(("VIOLATION", "----", "KNOWN", "WARNING"))]
                res[cid + "_first"] = (msgs[0] if msgs else "")[:200]
            elif rc != 0:
                res[cid + "_tail"] = out[-400:]
        return name, res
    finally:
        sh(["git", "-C", "/repo", "worktree", "remove", "--force", wt])
        shutil.rmtree(wt, ignore_errors=True)
        shutil.rmtree(wt + "-evidence", ignore_errors=True)


def main():
    args = sys.argv[1:]
    tier, jobs, names, extra = "quick", 3, [], []
    while args:
        a = args.pop(0)
        if a == "--tier":
            tier = args.pop(0)
        elif a == "--jobs":
            jobs = int(args.pop(0))
        elif a == "--also":
            extra = args.pop(0).split(",")
        elif a == "--dir":
            SEEDDIR[0] = args.pop(0)
        else:
            names.append(a)
    if not names:
        names = sorted(os.listdir(os.path.join(ROOT, SEEDDIR[0])))
    results = {}
    with concurrent.futures.ThreadPoolExecutor(jobs) as ex:
        for name, res in ex.map(lambda n: one(n, tier, extra), names):
            results[name] = res
            print(name, json.dumps(res))
            sys.stdout.flush()
    return 0


if __name__ == "__main__":
    sys.exit(main())

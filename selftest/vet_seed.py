#!/venv/bin/python
"""Vet a sub-agent's seeded change and, if it holds up, keep it under /verif/seeded/.

usage: vet_seed.py <ID> <A|B|...> [source dir, default /tmp/seed/<ID>/out/<X>]

Confirms, in a scratch worktree of /repo's HEAD (removed afterwards):
  1. demo.py exits 0 on the unchanged tree
  2. patch.diff applies
  3. the pinned test suite still passes with the change (116 passed)
  4. demo.py exits non-zero with the change
"""
import json
import os
import re
import shutil
import subprocess
import sys
import tempfile

PY = "/venv/bin/python"


def sh(cmd, cwd=None, env=None, timeout=1800):
    p = subprocess.run(cmd, cwd=cwd, env=env, stdout=subprocess.PIPE, stderr=subprocess.STDOUT,
                       timeout=timeout, text=True)
    return p.returncode, p.stdout


def main():
    pid, var = sys.argv[1], sys.argv[2]
    src = sys.argv[3] if len(sys.argv) > 3 else "/tmp/seed/%s/out/%s" % (pid, var)
    for fn in ("patch.diff", "demo.py", "meta.json"):
        if not os.path.exists(os.path.join(src, fn)):
            print("%s-%s: missing %s" % (pid, var, fn))
            return 2
    wt = tempfile.mkdtemp(prefix="vet-%s-%s-" % (pid, var), dir="/tmp")
    os.rmdir(wt)
    rc, out = sh(["git", "-C", "/repo", "worktree", "add", "--detach", wt, "HEAD"])
    if rc != 0:
        print(out)
        return 2
    result = {}
    try:
        env = dict(os.environ, PYTHONPATH=wt, PYTHONDONTWRITEBYTECODE="1")
        demo = os.path.join(src, "demo.py")
        rc, out = sh([PY, demo], cwd=wt, env=env)
        result["demo_on_unchanged_tree_exit"] = rc
        if rc != 0:
            print("%s-%s: demo fails on the unchanged tree (exit %d)\n%s" % (pid, var, rc, out[-1500:]))
            return 1
        rc, out = sh(["git", "apply", os.path.join(src, "patch.diff")], cwd=wt)
        if rc != 0:
            rc, out = sh(["git", "apply", "--3way", os.path.join(src, "patch.diff")], cwd=wt)
        if rc != 0:
            print("%s-%s: patch does not apply to HEAD\n%s" % (pid, var, out[-1500:]))
            return 1
        rc, diff = sh(["git", "diff", "HEAD"], cwd=wt)
        rc, out = sh([PY, "-m", "pytest", "-q", "-p", "no:cacheprovider", "--timeout=900"], cwd=wt, env=env)
        m = re.search(r"(\d+) passed", out)
        result["tests_with_change"] = out.strip().splitlines()[-1]
        if rc != 0 or not m or int(m.group(1)) != 116:
            print("%s-%s: test suite does not pass with the change: %s" % (pid, var, result["tests_with_change"]))
            return 1
        rc, out = sh([PY, demo], cwd=wt, env=env)
        result["demo_with_change_exit"] = rc
        if rc == 0:
            print("%s-%s: demo still passes with the change" % (pid, var))
            return 1
        result["demo_with_change_tail"] = out.strip().splitlines()[-1][:300] if out.strip() else ""
        dst = os.path.join("/verif/seeded", "%s-%s" % (pid, var))
        os.makedirs(dst, exist_ok=True)
        with open(os.path.join(dst, "patch.diff"), "w") as f:
            f.write(diff)           # re-based on the current HEAD
        shutil.copy(demo, os.path.join(dst, "demo.py"))
        meta = json.load(open(os.path.join(src, "meta.json")))
        head = sh(["git", "-C", "/repo", "rev-parse", "--short", "HEAD"])[1].strip()
        meta["vetted"] = dict(result, repo_head=head,
                              ran=["demo.py on unchanged worktree (exit 0)", "git apply patch.diff",
                                   "pytest -q (116 passed)", "demo.py with the change (non-zero exit)"])
        with open(os.path.join(dst, "meta.json"), "w") as f:
            json.dump(meta, f, indent=1)
        print("%s-%s: OK (%s)" % (pid, var, result["demo_with_change_tail"][:100]))
        return 0
    finally:
        sh(["git", "-C", "/repo", "worktree", "remove", "--force", wt])
        shutil.rmtree(wt, ignore_errors=True)


if __name__ == "__main__":
    sys.exit(main())

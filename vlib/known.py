"""KNOWN_FINDINGS.txt: read-only at run time.

Lines:
  known: property=<id> id=<slug> replay=<path> [exclude=<feature>[,<feature>]] <what fails>
  fixed: property=<id> <commit> <what failed>
A `known:` line pins one replay (run on every invocation; prints KNOWN-FINDING
if it still fails) and switches generator features off by construction.  A
`fixed:` line suppresses nothing.
"""
import os

ROOT = os.path.dirname(os.path.dirname(os.path.abspath(__file__)))


class Entry:
    def __init__(self, pid, slug, replay, exclude, text):
        self.pid, self.slug, self.replay, self.exclude, self.text = pid, slug, replay, exclude, text


class Known:
    def __init__(self, entries):
        self.entries = entries

    def exclusions(self):
        out = set()
        for e in self.entries:
            out.update(e.exclude)
        return out

    def by_replay(self, path):
        for e in self.entries:
            if os.path.normpath(e.replay) == os.path.normpath(path):
                return e
        return None


def load(pid):
    entries = []
    fn = os.path.join(ROOT, "KNOWN_FINDINGS.txt")
    if os.path.exists(fn):
        with open(fn) as f:
            for line in f:
                line = line.strip()
                if not line.startswith("known:"):
                    continue
                words = line[len("known:"):].split()
                kv = {}
                while words and "=" in words[0] and words[0].split("=")[0] in (
                        "property", "id", "replay", "exclude"):
                    k, v = words.pop(0).split("=", 1)
                    kv[k] = v
                if kv.get("property") != pid:
                    continue
                entries.append(Entry(pid, kv.get("id", "?"), kv.get("replay", ""),
                                     [x for x in kv.get("exclude", "").split(",") if x],
                                     "id=%s %s" % (kv.get("id", "?"), " ".join(words))))
    return Known(entries)

"""Program-order reference executor for methods-as-data (see vlib/progen.py).

Carries out the builder operations one after another in the order written, in
exact arithmetic, following the documented step protocol.  Independent of
dagrt: own guard handling, own loops, own evaluator (vlib/tree.py).
"""
from fractions import Fraction

from vlib import tree as T

MAXMAG = Fraction(2) ** 50


class Inexact(Exception):
    """A value left the exactly-representable domain; comparison ends here."""


class RefError(Exception):
    """The generated program is outside the generator's intended domain (generator slip)."""


class Uninit:
    def __repr__(self):
        return "UNINIT"


UNINIT = Uninit()


class Vec:
    """Mutable exact vector with numpy-like elementwise arithmetic (reference semantics)."""
    __slots__ = ("v",)

    def __init__(self, v):
        self.v = list(v)

    def _bin(self, o, f):
        if isinstance(o, Vec):
            if len(o.v) != len(self.v):
                if len(o.v) == 1:
                    return Vec([f(a, o.v[0]) for a in self.v])
                if len(self.v) == 1:
                    return Vec([f(self.v[0], b) for b in o.v])
                raise RefError("shape mismatch")
            return Vec([f(a, b) for a, b in zip(self.v, o.v)])
        return Vec([f(a, o) for a in self.v])

    def __add__(self, o):
        return self._bin(o, lambda a, b: a + b)

    def __radd__(self, o):
        return self._bin(o, lambda a, b: b + a)

    def __sub__(self, o):
        return self._bin(o, lambda a, b: a - b)

    def __rsub__(self, o):
        return self._bin(o, lambda a, b: b - a)

    def __mul__(self, o):
        return self._bin(o, lambda a, b: a * b)

    def __rmul__(self, o):
        return self._bin(o, lambda a, b: b * a)

    def __truediv__(self, o):
        return self._bin(o, lambda a, b: a / b)

    def __pow__(self, o):
        return self._bin(o, lambda a, b: a ** int(b))

    def __neg__(self):
        return Vec([-a for a in self.v])

    def __len__(self):
        return len(self.v)

    def __eq__(self, o):
        return isinstance(o, Vec) and self.v == o.v

    def __repr__(self):
        return "Vec(%s)" % ", ".join(str(x) for x in self.v)


def check_exact(v):
    if isinstance(v, bool) or v is None:
        return
    if isinstance(v, Fraction):
        if abs(v) >= MAXMAG or Fraction(float(v)) != v:
            raise Inexact()
        return
    if isinstance(v, Vec):
        for x in v.v:
            if x is UNINIT:
                continue
            check_exact(x)
        return
    if isinstance(v, tuple):
        for x in v:
            check_exact(x)


# ---------------------------------------------------------------- functions (generic: work on Fraction/Vec and on float/ndarray)

def fn_f(t, y):
    return -2 * y + t


def fn_g(x):
    return x * x / 2


def fn_two(x):
    return (x + 1, x * 2)


def fn_zero():
    return 3


def fn_split(y):
    return (2 * y, -1 * y)


def fn_cnt(x):
    """Integer-valued helper for calls inside loop bounds."""
    return x if isinstance(x, Fraction) else int(x)


def make_python_functions(log=None, fault=None, sites=None):
    """function_map for the Python back ends.  log: list receiving (name, args);
    fault: callable(name) raising when a fault is due."""
    import numpy as np

    def wrap(name, f):
        def w(*args, **kwargs):
            if log is not None:
                log.append((name, args, kwargs))
            if fault is not None:
                fault(name)
            return f(*args, **kwargs)
        return w

    def note(x):
        return None

    base = {"<func>f": fn_f, "<func>g": fn_g, "<func>two": fn_two, "<func>note": note, "<func>zero": fn_zero,
            "<func>split": fn_split, "<func>cnt": fn_cnt}
    out = {n: wrap(n, f) for n, f in base.items()}
    for site in sites or ():
        out[site] = wrap(site, base[base_function(site)])
    return out


def _fsum(xs):
    """Exact sum; Inexact unless the terms can be added in doubles in *any* order without rounding (the back ends'
    dot products and norms do not promise an order): all terms exact, and on their common binary grid the sum of the
    magnitudes stays below 2**53."""
    xs = list(xs)
    r = Fraction(0)
    den = 1
    mag = Fraction(0)
    for x in xs:
        check_exact(x)
        r += x
        den = max(den, x.denominator)
        mag += abs(x)
    if mag * den >= 2 ** 53:
        raise Inexact()
    return r


def base_function(name):
    """'<func>f__3' (call site 3 of <func>f) -> '<func>f'."""
    return name.split("__")[0] if name.startswith("<func>") else name


# argument names as documented for the built-ins (dagrt/function_registry.py)
BUILTIN_ARG_NAMES = {
    "<builtin>len": ["x"], "<builtin>isnan": ["x"], "<builtin>norm_1": ["x"], "<builtin>norm_2": ["x"],
    "<builtin>norm_inf": ["x"], "<builtin>elementwise_abs": ["x"], "<builtin>dot_product": ["x", "y"],
    "<builtin>array": ["n"], "<builtin>matmul": ["a", "b", "a_cols", "b_cols"], "<builtin>transpose": ["a", "a_cols"],
}


def ref_call(log):
    def call(name, args, kwargs):
        site = name
        name = base_function(name)
        if name.startswith("<func>"):
            detail = (tuple(snapshot_value(a) for a in args),
                      tuple((k, snapshot_value(v)) for k, v in sorted(kwargs.items())))
        if site != name:
            log.append((site, detail))
            if name == "<func>f":
                return fn_f(*args, **kwargs)
            if name == "<func>g":
                return fn_g(*args, **kwargs)
            if name == "<func>two":
                return fn_two(*args, **kwargs)
            if name == "<func>split":
                return fn_split(*args, **kwargs)
            if name == "<func>cnt":
                return fn_cnt(*args, **kwargs)
            if name == "<func>note":
                return None
            if name == "<func>zero":
                return Fraction(3)
        if name == "<func>f":
            log.append((name, detail))
            return fn_f(*args, **kwargs)
        if name == "<func>g":
            log.append((name, detail))
            return fn_g(*args, **kwargs)
        if name == "<func>two":
            log.append((name, detail))
            return fn_two(*args, **kwargs)
        if name == "<func>split":
            log.append((name, detail))
            return fn_split(*args, **kwargs)
        if name == "<func>cnt":
            log.append((name, detail))
            return fn_cnt(*args, **kwargs)
        if name == "<func>note":
            log.append((name, detail))
            return None
        if name == "<func>zero":
            log.append((name, detail))
            return Fraction(3)
        if kwargs:
            # bind keyword arguments by the documented argument names (dagrt.function_registry)
            names = BUILTIN_ARG_NAMES.get(name)
            if names is None:
                raise RefError("keyword arguments to unknown builtin")
            bound = list(args)
            for n_ in names[len(args):]:
                if n_ not in kwargs:
                    raise RefError("missing argument %s" % n_)
                bound.append(kwargs[n_])
            if len(bound) != len(names) or set(kwargs) - set(names[len(args):]):
                raise RefError("bad keyword arguments")
            args = bound
        if name == "<builtin>len":
            return Fraction(len(args[0].v)) if isinstance(args[0], Vec) else Fraction(1)
        if name == "<builtin>norm_1":
            return _fsum(abs(x) for x in args[0].v) if isinstance(args[0], Vec) else abs(args[0])
        if name == "<builtin>norm_2":
            # only used where values are not compared (C12); exact when the sum of squares is a perfect square
            import math
            sq = _fsum(x * x for x in args[0].v) if isinstance(args[0], Vec) else args[0] * args[0]
            n_, d_ = sq.numerator, sq.denominator
            rn, rd = math.isqrt(n_), math.isqrt(d_)
            if rn * rn == n_ and rd * rd == d_:
                return Fraction(rn, rd)
            raise Inexact()
        if name == "<builtin>norm_inf":
            return max(abs(x) for x in args[0].v) if isinstance(args[0], Vec) else abs(args[0])
        if name == "<builtin>dot_product":
            a, b = args
            if len(a.v) != len(b.v):
                raise RefError("dot_product length mismatch")
            return _fsum(x * y for x, y in zip(a.v, b.v))
        if name == "<builtin>elementwise_abs":
            x = args[0]
            return Vec([abs(e) for e in x.v]) if isinstance(x, Vec) else abs(x)
        if name == "<builtin>array":
            n = args[0]
            if n.denominator != 1:
                raise RefError("array(n) with non-integer n")
            return Vec([UNINIT] * int(n))
        if name == "<builtin>isnan":
            return False
        if name == "<builtin>transpose":
            a, cols = args
            cols = int(cols)
            rows = len(a.v) // cols
            out = [None] * (rows * cols)
            # A[r][c] = a[c*rows + r]; B = A^T has shape (cols, rows); flat F-order: B[r2][c2] at c2*cols + r2
            for r in range(rows):
                for c in range(cols):
                    out[r * cols + c] = a.v[c * rows + r]
            return Vec(out)
        if name == "<builtin>matmul":
            a, b, ac, bc = args
            ac, bc = int(ac), int(bc)
            ar = len(a.v) // ac
            br = len(b.v) // bc
            if ac != br:
                raise RefError("matmul shape mismatch")
            out = [None] * (ar * bc)
            for r in range(ar):
                for c in range(bc):
                    out[c * ar + r] = _fsum(a.v[k * ar + r] * b.v[c * br + k] for k in range(ac))
            return Vec(out)
        raise RefError("unknown function %s" % name)
    return call


def ref_subscript(agg, aggtree, idx):
    if not isinstance(agg, Vec):
        raise RefError("subscript of non-array")
    i = idx[0]
    if not isinstance(i, Fraction) or i.denominator != 1:
        raise RefError("non-integer index")
    i = int(i)
    if not 0 <= i < len(agg.v):
        raise RefError("index out of range")
    v = agg.v[i]
    if v is UNINIT:
        raise RefError("read of uninitialised array element")
    return v


class CheckedEvaluator(T.Evaluator):
    """Every node value and every partial sum/product must be exactly representable: the back ends compute in
    doubles, and a rounded intermediate result may change a final value that is itself representable."""

    def rec(self, t):
        v = T.Evaluator.rec(self, t)
        check_exact(v)
        return v

    def partial(self, v):
        check_exact(v)
        return v


# ---------------------------------------------------------------- step protocol

class _Fail(Exception):
    pass


class _Switch(Exception):
    def __init__(self, target):
        self.target = target


class _Raise(Exception):
    def __init__(self, name):
        self.name = name


def is_persistent(name):
    return name in ("<t>", "<dt>") or name.startswith("<state>") or name.startswith("<p>")


def to_exact_value(v):
    if isinstance(v, list):
        return Vec([Fraction(x) for x in v])
    if isinstance(v, bool):
        return v
    return Fraction(v)


class RefMachine:
    def __init__(self, method):
        self.method = method
        self.phases = {p["name"]: p for p in method["phases"]}
        self.env = {"<t>": Fraction(method["t0"]), "<dt>": Fraction(method["dt0"])}
        for n, v in method["state"].items():
            self.env["<state>" + n] = to_exact_value(v)
        self.next_phase = method["initial"]
        self.calls = []
        self.trace = None     # when a list: per executed op {"op": index, "phase", "writes": {persistent: snapshot}, "sites": [...]}
        self.op_index = {}
        for p in method["phases"]:
            counter = [0]

            def walk(ops):
                for op in ops:
                    self.op_index[id(op)] = counter[0]
                    counter[0] += 1
                    if op[0] == "if":
                        walk(op[2])
                        if op[3]:
                            walk(op[3])
            walk(p["body"])
        self.ev = CheckedEvaluator(self.env, call=ref_call(self.calls), subscript=ref_subscript)

    # -- executing ops in program order
    def exec_block(self, ops, events):
        for op in ops:
            self.exec_op(op, events)

    def exec_op(self, op, events):
        if self.trace is None:
            return self._exec_op(op, events)
        ncalls = len(self.calls)
        before = {n: snapshot_value(v) for n, v in self.env.items() if is_persistent(n)}
        try:
            return self._exec_op(op, events) if op[0] != "if" else self._exec_if_traced(op, events, ncalls, before)
        finally:
            if op[0] != "if":
                self._record(op, ncalls, before)

    def _record(self, op, ncalls, before):
        after = {n: snapshot_value(v) for n, v in self.env.items() if is_persistent(n)}
        self.trace.append({"op": self.op_index.get(id(op)), "phase": self.cur_phase, "kind": op[0],
                           "writes": {n: v for n, v in after.items() if before.get(n, "<unset>") != v},
                           "sites": [c[0] for c in self.calls[ncalls:]]})

    def _exec_if_traced(self, op, events, ncalls, before):
        flag = self.ev(op[1])
        self._record(op, ncalls, before)       # the condition statement itself (may call functions)
        if flag:
            self.exec_block(op[2], events)
        elif op[3]:
            self.exec_block(op[3], events)

    def _exec_op(self, op, events):
        k = op[0]
        ev = self.ev
        if k == "assign":
            _, name, sub, rhs, loops = op
            self._loops(name, sub, rhs, list(loops))
        elif k == "call":
            _, assignees, fname, args, kw = op
            a = [ev(x) for x in args]
            kwv = {n: ev(kw[n]) for n in T.kw_names(kw)}
            res = ev.call(fname, a, kwv)
            check_exact(res)
            if len(assignees) == 0:
                pass
            elif len(assignees) == 1:
                self.env[assignees[0]] = res
            else:
                if len(res) != len(assignees):
                    raise RefError("result count")
                for n, r in zip(assignees, res):
                    self.env[n] = r
        elif k == "if":
            flag = ev(op[1])
            if flag:
                self.exec_block(op[2], events)
            elif op[3]:
                self.exec_block(op[3], events)
        elif k == "yield":
            val = ev(op[1])
            t = ev(op[3])
            events.append(("state", t, op[4], op[2], snapshot_value(val)))
        elif k == "fail":
            raise _Fail()
        elif k == "switch":
            raise _Switch(op[1])
        elif k == "restart":
            raise _Switch(self.cur_phase)
        elif k == "raise":
            raise _Raise(op[1])
        else:
            raise RefError("bad op %r" % (op,))

    def _loops(self, name, sub, rhs, loops):
        if not loops:
            val = self.ev(rhs)
            if sub:
                idx = self.ev(sub[0])
                tgt = self.env.get(name)
                if not isinstance(tgt, Vec):
                    raise RefError("subscripted assignment to non-array")
                if idx.denominator != 1 or not 0 <= int(idx) < len(tgt.v):
                    raise RefError("index out of range in assignment")
                if isinstance(val, (Vec, bool)):
                    raise RefError("array element assigned a non-scalar")
                tgt.v[int(idx)] = val
            else:
                # value semantics: a plain copy "b <- a" of an array makes b independent of a
                # (this is what the recorded dependencies and the Fortran target implement)
                self.env[name] = Vec(val.v) if isinstance(val, Vec) else val
            return
        ident, lo, hi = loops[0]
        lo_v, hi_v = self.ev(lo), self.ev(hi)
        if lo_v.denominator != 1 or hi_v.denominator != 1:
            raise RefError("non-integer loop bound")
        had = ident in self.env
        for i in range(int(lo_v), int(hi_v)):
            self.env[ident] = Fraction(i)
            self._loops(name, sub, rhs, loops[1:])
        if not had:
            self.env.pop(ident, None)

    # -- step protocol
    def single_step(self):
        """Returns (events, outcome) with outcome in completed/failed/('raised', name)."""
        T.set_kw_order(self.method)
        phase = self.phases[self.next_phase]
        self.cur_phase = phase["name"]
        self.next_phase = phase["next"]
        events = []
        outcome = "completed"
        self.exited = True
        try:
            self.exec_block(phase["body"], events)
            self.exited = False
        except _Fail:
            outcome = "failed"
        except _Switch as s:
            self.next_phase = s.target
        except _Raise as r:
            outcome = ("raised", r.name)
        finally:
            if not getattr(self, "keep_temporaries", False):
                for n in list(self.env):
                    if not is_persistent(n):
                        del self.env[n]
        return events, outcome

    def persistent_state(self):
        out = {}
        for n, v in self.env.items():
            if is_persistent(n):
                if isinstance(v, Vec) and any(x is UNINIT for x in v.v):
                    raise RefError("persistent array %s left partly uninitialised" % n)
                out[n] = snapshot_value(v)
        return out


def snapshot_value(v):
    if isinstance(v, Vec):
        return ("vec", tuple(v.v))
    return v


def run_reference(method, plan):
    """History: list of step records {"events", "outcome", "state", "next_phase"} and a
    terminal status: "done", "cut" (event cap), "raised", "inexact", "slip:<reason>"."""
    m = RefMachine(method)
    hist = []
    n_steps = 0
    n_events = 0
    cap = plan.get("max_events", 60)
    status = "done"
    while True:
        if plan.get("t_end") is not None and m.env["<t>"] >= Fraction(plan["t_end"]):
            break
        if plan.get("max_steps") is not None and n_steps >= plan["max_steps"]:
            break
        if n_events >= cap:
            status = "cut"
            break
        cur = m.next_phase
        try:
            events, outcome = m.single_step()
        except Inexact:
            status = "inexact"
            break
        except (RefError, T.UndefinedRead, T.EvalError, ZeroDivisionError, OverflowError, TypeError, AttributeError) as e:
            status = "slip:%s:%s" % (type(e).__name__, str(e)[:60])
            break
        rec = {"events": list(events), "cur": cur}
        if outcome == "failed":
            rec["events"].append(("failed", m.env["<t>"]))
        elif outcome == "completed":
            rec["events"].append(("completed", m.env["<dt>"], m.env["<t>"], cur, m.next_phase))
            n_steps += 1
        else:
            rec["events"].append(outcome)
        rec["outcome"] = outcome if isinstance(outcome, str) else "raised"
        try:
            rec["state"] = m.persistent_state()
        except RefError as e:
            status = "slip:RefError:%s" % str(e)[:60]
            break
        rec["next_phase"] = m.next_phase
        n_events += len(rec["events"])
        hist.append(rec)
        if rec["outcome"] == "raised":
            status = "raised"
            break
    return hist, status, m

"""evidence/<id>.json writer (shape checked against EVIDENCE.schema.json by hand)."""
import json
import os

ROOT = os.path.dirname(os.path.dirname(os.path.abspath(__file__)))


def _jsonable(x, depth=0):
    try:
        json.dumps(x)
        return x
    except TypeError:
        return json.loads(json.dumps(x, default=repr))


def write(pid, tier, seed, mod, ctx, wall, nviol, reproduced):
    cov = dict(
        evaluations=int(ctx.evaluations),
        distinct_nontrivial=len(ctx.nontrivial),
        rule=getattr(mod, "RULE", ""),
        samples=[_jsonable(s) for s in ctx.samples],
        classes=dict(sorted(ctx.classes.items())),
        known_findings_reproduced=reproduced,
        excluded_features=sorted(ctx.excluded),
        time_budget_reached=bool(ctx.timed_out),
    )
    for k, v in sorted(ctx.extra.items()):
        cov.setdefault(k, _jsonable(v))
    ev = dict(
        property_id=pid, tier=tier, seed=int(seed),
        level=getattr(mod, "LEVEL", "exploration"),
        coverage=cov,
        assumptions=list(getattr(mod, "ASSUMPTIONS", [])),
        wall_s=round(float(wall), 2),
        violations=int(nviol),
    )
    # minimal structural validation (jsonschema is not installed in /venv)
    assert ev["tier"] in ("quick", "thorough")
    assert isinstance(cov["samples"], list)
    # VERIF_EVIDENCE_DIR: used only by selftest/ (runs against scratch copies must
    # not overwrite the evidence of the real tree)
    evdir = os.environ.get("VERIF_EVIDENCE_DIR") or os.path.join(ROOT, "evidence")
    os.makedirs(evdir, exist_ok=True)
    tmp = os.path.join(evdir, pid + ".json.tmp%d" % os.getpid())
    with open(tmp, "w") as f:
        json.dump(ev, f, indent=1, sort_keys=True)
    os.replace(tmp, os.path.join(evdir, pid + ".json"))

"""Independent walkers for dagrt.codegen.dag_ast trees.

trace mode : flags are free booleans; result = sequence of (statement id, enclosing loops)
value mode : executes statements on an environment (see ValueWalker)

Neither uses ASTStringifier nor the repo's mappers.
"""
from pymbolic.primitives import (
    Comparison, LogicalAnd, LogicalNot, LogicalOr, Variable)


class WalkError(Exception):
    pass


def eval_flag_condition(cond, val):
    """Conditions over free boolean flags."""
    if cond is True or cond is False:
        return cond
    import numpy as np
    if isinstance(cond, (int, float, np.generic)) and not isinstance(cond, Variable):
        return bool(cond)          # a constant guard: what the interpreter's truth test makes of it
    if isinstance(cond, Variable):
        return bool(val[cond.name])
    if isinstance(cond, LogicalNot):
        return not eval_flag_condition(cond.child, val)
    if isinstance(cond, LogicalAnd):
        return all(eval_flag_condition(c, val) for c in cond.children)
    if isinstance(cond, LogicalOr):
        return any(eval_flag_condition(c, val) for c in cond.children)
    if isinstance(cond, Comparison):
        # numeric operands: variables valued by val (possibly NaN) or constants; Python/IEEE semantics
        import operator
        a, b = _num_operand(cond.left, val), _num_operand(cond.right, val)
        return {"<": operator.lt, "<=": operator.le, ">": operator.gt, ">=": operator.ge,
                "==": operator.eq, "!=": operator.ne}[cond.operator](a, b)
    raise WalkError("unsupported flag condition %r" % (cond,))


def _num_operand(e, val):
    if isinstance(e, Variable):
        return float(val[e.name])
    if isinstance(e, (int, float)) and not isinstance(e, bool):
        return float(e)
    raise WalkError("unsupported comparison operand %r" % (e,))


def flags_of(cond, acc=None):
    acc = set() if acc is None else acc
    if isinstance(cond, Variable):
        acc.add(cond.name)
    elif isinstance(cond, LogicalNot):
        flags_of(cond.child, acc)
    elif isinstance(cond, (LogicalAnd, LogicalOr)):
        for c in cond.children:
            flags_of(c, acc)
    elif isinstance(cond, Comparison):
        flags_of(cond.left, acc)
        flags_of(cond.right, acc)
    return acc


def _kind(node):
    return type(node).__name__


def trace(node, val, loops=(), leaf=lambda stmt: stmt.id):
    """Sequence of (leaf(stmt), loops) executed under valuation val."""
    k = _kind(node)
    if k == "StatementWrapper":
        return [(leaf(node.statement), loops)]
    if k == "IfThen":
        if eval_flag_condition(node.condition, val):
            return trace(node.then, val, loops, leaf)
        return []
    if k == "IfThenElse":
        if eval_flag_condition(node.condition, val):
            return trace(node.then, val, loops, leaf)
        return trace(node.else_, val, loops, leaf)
    if k == "ForLoop":
        return trace(node.body, val,
                     loops + ((node.loop_var_name, str(node.lbound), str(node.ubound)),), leaf)
    if k == "Block":
        out = []
        for c in node.children:
            out.extend(trace(c, val, loops, leaf))
        return out
    if k == "NullASTNode":
        return []
    raise WalkError("unknown node type %s" % k)


def node_types(node, acc=None):
    acc = [] if acc is None else acc
    k = _kind(node)
    acc.append(k)
    if k == "IfThen":
        node_types(node.then, acc)
    elif k == "IfThenElse":
        node_types(node.then, acc)
        node_types(node.else_, acc)
    elif k == "ForLoop":
        node_types(node.body, acc)
    elif k == "Block":
        for c in node.children:
            node_types(c, acc)
    return acc


def serialise(node):
    """Own structural serialiser (for metamorphic comparisons)."""
    k = _kind(node)
    if k == "StatementWrapper":
        return ["S", node.statement.id, str(node.statement)]
    if k == "IfThen":
        return ["I", str(node.condition), serialise(node.then)]
    if k == "IfThenElse":
        return ["E", str(node.condition), serialise(node.then), serialise(node.else_)]
    if k == "ForLoop":
        return ["F", node.loop_var_name, str(node.lbound), str(node.ubound), serialise(node.body)]
    if k == "Block":
        return ["B"] + [serialise(c) for c in node.children]
    if k == "NullASTNode":
        return ["N"]
    raise WalkError("unknown node type %s" % k)


def generic_walker_trace(ast, val, leaf=lambda stmt: stmt.id):
    """Trace as seen by the walker every structured backend uses
    (StructuredCodeGenerator.lower_node): record the emit_* callbacks, then
    interpret the recorded structure under the valuation."""
    from dagrt.codegen.codegen_base import StructuredCodeGenerator

    class Rec(StructuredCodeGenerator):
        def __init__(self):
            self.ev = []

        def emit_if_begin(self, expr):
            self.ev.append(("if", expr))

        def emit_if_end(self):
            self.ev.append(("endif",))

        def emit_else_begin(self):
            self.ev.append(("else",))

        def emit_for_begin(self, loop_var_name, lbound, ubound):
            self.ev.append(("for", loop_var_name, str(lbound), str(ubound)))

        def emit_for_end(self, loop_var_name):
            self.ev.append(("endfor",))

        def emit_return(self):
            self.ev.append(("return",))

        def lower_inst(self, inst):
            self.ev.append(("stmt", inst))

    rec = Rec()
    rec.lower_ast(ast)   # may raise ValueError("Unrecognized node type")
    out = []
    # stack of (active?, kind, payload)
    active = [True]
    loops = []
    frames = []
    for e in rec.ev:
        if e[0] == "if":
            c = eval_flag_condition(e[1], val) if active[-1] else False
            frames.append(["if", c, active[-1]])
            active.append(active[-1] and c)
        elif e[0] == "else":
            fr = frames[-1]
            active.pop()
            active.append(fr[2] and not fr[1])
        elif e[0] == "endif":
            frames.pop()
            active.pop()
        elif e[0] == "for":
            frames.append(["for"])
            loops.append((e[1], e[2], e[3]))
        elif e[0] == "endfor":
            frames.pop()
            loops.pop()
        elif e[0] == "stmt":
            if active[-1]:
                out.append((leaf(e[1]), tuple(loops)))
        elif e[0] == "return":
            pass
    if frames or loops or len(active) != 1:
        raise WalkError("unbalanced emit_* callbacks")
    return out


# ---------------------------------------------------------------- value mode

class ValueWalker:
    """Runs a dag_ast tree top to bottom on an exact environment, the way the structured back
    ends do: guards and loops come from the nodes; a wrapped statement is performed
    unconditionally (its own `condition` attribute is ignored, as emit_inst_* ignore it) unless
    honour_statement_conditions is set."""

    def __init__(self, env, honour_statement_conditions=False):
        from vlib.sched import StatementExecutor
        self.ex = StatementExecutor(env)
        self.env = env
        self.honour = honour_statement_conditions
        self.executed = []

    def cond(self, c):
        from vlib import tree as T
        if c is True or c is False:
            return c
        return bool(self.ex.ev(T.from_pymbolic(c)))

    def run(self, node):
        """May raise sched.StepExit, tree.UndefinedRead, refexec.Inexact/RefError."""
        from fractions import Fraction
        from vlib import tree as T
        k = _kind(node)
        if k == "StatementWrapper":
            s = node.statement
            if self.honour and not self.ex.guard(s):
                return
            self.executed.append(s.id)
            self.ex.perform(s)
        elif k == "IfThen":
            if self.cond(node.condition):
                self.run(node.then)
        elif k == "IfThenElse":
            if self.cond(node.condition):
                self.run(node.then)
            else:
                self.run(node.else_)
        elif k == "ForLoop":
            lo = self.ex.ev(T.from_pymbolic(node.lbound))
            hi = self.ex.ev(T.from_pymbolic(node.ubound))
            for i in range(int(lo), int(hi)):
                self.env[node.loop_var_name] = Fraction(i)
                self.run(node.body)
        elif k == "Block":
            for c in node.children:
                self.run(c)
        elif k == "NullASTNode":
            raise WalkError("NullASTNode in a tree handed to a back end")
        else:
            raise WalkError("unknown node type %s" % k)


def statements_of(node, acc=None):
    acc = [] if acc is None else acc
    k = _kind(node)
    if k == "StatementWrapper":
        acc.append(node.statement)
    elif k == "IfThen":
        statements_of(node.then, acc)
    elif k == "IfThenElse":
        statements_of(node.then, acc)
        statements_of(node.else_, acc)
    elif k == "ForLoop":
        statements_of(node.body, acc)
    elif k == "Block":
        for c in node.children:
            statements_of(c, acc)
    return acc


def shared_loops(node, acc=None):
    """Sets of >= 2 distinct statement ids found inside one ForLoop node."""
    acc = [] if acc is None else acc
    k = _kind(node)
    if k == "ForLoop":
        ids = {s.id for s in statements_of(node)}
        if len(ids) > 1:
            acc.append(ids)
        shared_loops(node.body, acc)
    elif k == "IfThen":
        shared_loops(node.then, acc)
    elif k == "IfThenElse":
        shared_loops(node.then, acc)
        shared_loops(node.else_, acc)
    elif k == "Block":
        for c in node.children:
            shared_loops(c, acc)
    return acc

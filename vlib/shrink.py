"""Bounded delta debugging on JSON-able cases."""
import copy


def ddmin_list(items, still_fails, budget):
    """Remove chunks of a list while still_fails(list) holds.  budget is a
    one-element list [remaining evaluations]."""
    n = 2
    items = list(items)
    while len(items) >= 1 and budget[0] > 0:
        chunk = max(1, len(items) // n)
        removed = False
        i = 0
        while i < len(items) and budget[0] > 0:
            cand = items[:i] + items[i + chunk:]
            budget[0] -= 1
            if still_fails(cand):
                items = cand
                removed = True
            else:
                i += chunk
        if not removed:
            if chunk == 1:
                break
            n = min(len(items), n * 2)
    return items


def shrink_tree(tree, children_of, rebuild, leaves, still_fails, budget):
    """Generic subtree replacement: try replacing any node by one of its
    children or by a leaf."""
    def paths(t, p=()):
        yield p
        for i, c in enumerate(children_of(t)):
            yield from paths(c, p + (i,))

    def get(t, p):
        for i in p:
            t = children_of(t)[i]
        return t

    def put(t, p, new):
        if not p:
            return new
        ch = list(children_of(t))
        ch[p[0]] = put(ch[p[0]], p[1:], new)
        return rebuild(t, ch)

    progress = True
    while progress and budget[0] > 0:
        progress = False
        for p in list(paths(tree)):
            try:
                node = get(tree, p)
            except (IndexError, TypeError):
                continue
            cands = list(children_of(node)) + [l for l in leaves if l != node]
            for c in cands:
                if budget[0] <= 0:
                    break
                budget[0] -= 1
                new = put(copy.deepcopy(tree), p, c)
                if new != tree and still_fails(new):
                    tree = new
                    progress = True
                    break
            if progress:
                break
    return tree

"""Fortran harness: generate module + driver, compile with gfortran, run, parse the state dumps."""
import os
import re
import shutil
import subprocess
import tempfile
from fractions import Fraction

from vlib import kinds as K
from vlib.runner import HarnessError


class FortranBuildError(Exception):
    """gfortran rejected the generated module (a finding, not a harness problem)."""


def generate(dag, ulen, module="m", user_types=("y",), index_vars="i", **kwargs):
    import dagrt.codegen.fortran as f
    utm = {u: f.ArrayType((ulen,), f.BuiltinType("real*8"), index_vars=index_vars) for u in user_types}
    cg = f.CodeGenerator(module, user_type_map=utm, function_registry=K.make_registry(fortran=True), **kwargs)
    text, _ = K.quiet(cg, dag)
    return cg, text


FIELD_RE = re.compile(r"^\s*(?P<type>integer|logical|real\s*\(kind=\d+\)|real\*8|complex\s*\(kind=\d+\))"
                      r"(?P<attrs>(\s*,\s*[a-z]+(\([^)]*\))?)*)\s*(::)?\s*(?P<name>\w+)\s*$", re.I)


def parse_state_type(text):
    """field name -> dict(base=integer|logical|real|complex, allocatable, pointer, array)"""
    lines = text.split("\n")
    # re-join continuation lines
    joined = []
    cur = ""
    for ln in lines:
        s = ln.rstrip()
        if s.endswith("&"):
            cur += s[:-1].rstrip() + " "
        else:
            joined.append(cur + s.strip() if cur else s)
            cur = ""
    fields = {}
    inside = False
    for ln in joined:
        st = ln.strip()
        if st.lower().startswith("type dagrt_state_type"):
            inside = True
            continue
        if inside and st.lower().startswith("end type"):
            break
        if not inside or not st or st.startswith("!"):
            continue
        m = FIELD_RE.match(st)
        if not m:
            raise HarnessError("cannot parse state field declaration: %r" % st)
        attrs = m.group("attrs").lower()
        base = m.group("type").lower().split("(")[0].split("*")[0].strip()
        fields[m.group("name")] = dict(base=base, allocatable="allocatable" in attrs, pointer="pointer" in attrs,
                                       array="dimension" in attrs)
    return fields


def fnum(v):
    if isinstance(v, bool):
        return ".true." if v else ".false."
    if isinstance(v, float) and v != v:
        return "ieee_value(1d0, ieee_quiet_nan)"
    r = repr(float(v))
    if "e" in r:
        return r.replace("e", "d")
    return r + "d0"


def driver_source(module, fields, init_args, nsteps, shapes=None):
    """init_args: list of (fortran keyword, value) with value a number or a list of numbers.
    shapes: keyword -> shape tuple for initial values of more than one dimension (column-major order)."""
    shapes = shapes or {}
    L = []
    a = L.append
    a("program verif_driver")
    a("  use %s, only: dagrt_state_type, v_initialize => initialize, v_run => run, v_shutdown => shutdown" % module)
    a("  use, intrinsic :: ieee_arithmetic, only: ieee_value, ieee_quiet_nan")
    a("  implicit none")
    a("  type(dagrt_state_type), target :: st")
    a("  type(dagrt_state_type), pointer :: sp")
    a("  integer :: k, j")
    a("  real*8, allocatable :: flat(:)")
    for kw, v in init_args:
        if isinstance(v, list):
            a("  real*8, dimension(%s) :: arg_%s" % (", ".join(str(d) for d in shapes.get(kw, (len(v),))), kw))
    a("  sp => st")
    for kw, v in init_args:
        if isinstance(v, list):
            if kw in shapes:
                a("  arg_%s = reshape((/ %s /), (/ %s /))" % (kw, ", ".join(fnum(x) for x in v),
                                                            ", ".join(str(d) for d in shapes[kw])))
            else:
                a("  arg_%s = (/ %s /)" % (kw, ", ".join(fnum(x) for x in v)))
    call = ["dagrt_state=sp"]
    for kw, v in init_args:
        call.append("%s=%s" % (kw, "arg_" + kw if isinstance(v, list) else fnum(v)))
    a("  call v_initialize(%s)" % ", &\n      ".join(call))
    a("  do k = 1, %d" % nsteps)
    a("    call v_run(dagrt_state=sp)")
    a("    write(*,'(A,I0)') 'STEP ', k")
    for name, fd in sorted(fields.items()):
        ref = "st%%%s" % name
        if name.startswith("dagrt_refcnt_"):
            continue
        if fd["base"] == "integer" and not fd["array"]:
            a("    write(*,'(A,I0)') 'I %s ', %s" % (name, ref))
        elif fd["base"] == "logical":
            a("    write(*,'(A,L1)') 'L %s ', %s" % (name, ref))
        elif fd["array"]:
            test = "associated" if fd["pointer"] else "allocated"
            a("    if (%s(%s)) then" % (test, ref))
            a("      write(*,'(A,I0,A,I0)') 'A %s ', size(%s), ' ', lbound(%s, 1)" % (name, ref, ref))
            a("      flat = reshape(%s, (/ size(%s) /))" % (ref, ref))     # any rank, column-major
            a("      do j = 1, size(flat)")
            a("        write(*,'(A,ES25.17E3)') 'E ', flat(j)")
            a("      end do")
            a("    else")
            a("      write(*,'(A)') 'U %s'" % name)
            a("    end if")
        else:
            a("    write(*,'(A,ES25.17E3)') 'F %s ', %s" % (name, ref))
    a("    flush(6)")
    a("  end do")
    a("  if (allocated(flat)) deallocate(flat)")
    a("  call v_shutdown(dagrt_state=sp)")
    a("  write(*,'(A)') 'DONE'")
    a("  flush(6)")
    a("end program")
    return "\n".join(L) + "\n"


def parse_dump(out):
    """Returns (list of per-step dict field -> value, done flag)."""
    steps = []
    cur = None
    arr = None
    done = False
    for ln in out.split("\n"):
        ln = ln.strip()
        if not ln:
            continue
        tag = ln[0]
        if ln.startswith("STEP "):
            cur = {}
            steps.append(cur)
            arr = None
        elif ln == "DONE":
            done = True
        elif cur is None:
            continue
        elif tag == "I":
            _, name, v = ln.split()
            cur[name] = int(v)
        elif tag == "L":
            _, name, v = ln.split()
            cur[name] = v == "T"
        elif tag == "F":
            _, name, v = ln.split()
            cur[name] = pfloat(v)
        elif tag == "A":
            _, name, n, lb = ln.split()
            arr = []
            cur[name] = ("vec", arr, int(lb))
        elif tag == "E" and arr is not None:
            arr.append(pfloat(ln.split()[1]))
        elif tag == "U":
            cur[ln.split()[1]] = None
    return steps, done


def pfloat(s):
    s = s.strip()
    low = s.lower()
    if "nan" in low:
        return "nan"
    if "inf" in low:
        return "-inf" if low.startswith("-") else "inf"
    return Fraction(float(s))


SAN_FLAGS = ["-fsanitize=address,undefined", "-fno-omit-frame-pointer", "-fcheck=pointer,bounds"]


def compile_and_run(module_text, driver_text, sanitize=False, libs=(), timeout=60, module="m"):
    """Returns dict(compile_ok, compile_out, rc, stdout, stderr)."""
    base = os.environ.get("TMPDIR", "/tmp")
    d = tempfile.mkdtemp(prefix="verif-f-%d-" % os.getpid(), dir=base)
    try:
        with open(os.path.join(d, module + ".f90"), "w") as fh:
            fh.write(module_text)
        with open(os.path.join(d, "driver.f90"), "w") as fh:
            fh.write(driver_text)
        cmd = ["gfortran", "-O0", "-g", "-ffree-line-length-none", "-w"] + (SAN_FLAGS if sanitize else []) \
            + [module + ".f90", "driver.f90", "-o", "prog"] + ["-l" + l for l in libs]
        try:
            p = subprocess.run(cmd, cwd=d, capture_output=True, text=True, timeout=180)
        except FileNotFoundError:
            raise HarnessError("gfortran not found")
        except subprocess.TimeoutExpired:
            raise HarnessError("gfortran timed out")
        res = dict(compile_ok=p.returncode == 0, compile_out=(p.stdout + p.stderr)[-3000:])
        if not res["compile_ok"]:
            return res
        env = dict(os.environ)
        if sanitize:
            env["ASAN_OPTIONS"] = "detect_leaks=1:abort_on_error=0:halt_on_error=1:exitcode=77"
            env["UBSAN_OPTIONS"] = "print_stacktrace=1:halt_on_error=1:exitcode=78"
            env["LSAN_OPTIONS"] = "exitcode=79"
        try:
            r = subprocess.run([os.path.join(d, "prog")], cwd=d, capture_output=True, text=True, timeout=timeout,
                               env=env)
            res.update(rc=r.returncode, stdout=r.stdout, stderr=r.stderr)
        except subprocess.TimeoutExpired:
            res.update(rc="timeout", stdout="", stderr="")
        return res
    finally:
        shutil.rmtree(d, ignore_errors=True)


def gfortran_available():
    return shutil.which("gfortran") is not None

"""Hypothesis strategies for typed expression trees (see vlib/tree.py)."""
from hypothesis import strategies as st

NUM_VARS = ["x", "y", "z", "<state>y", "<state>u", "<p>k", "<p>acc", "<t>", "<dt>", "a1", "tmp", "b_2"]
AGG_VARS = ["arr", "<state>v", "<p>hist"]
FUNCS = ["f", "g", "<func>f", "<func>rhs", "<builtin>len", "<builtin>norm_2", "h"]
KWNAMES = ["t", "y", "k", "alpha", "n"]
INT_CONSTS = [0, 1, 2, 3, 4, 5, 7, 9, -1, -2, -3, -4]
FLOAT_CONSTS = [0.5, 1.5, 0.25, 2.0, -0.5, 1e-08, 2.5e10, 100.0]
CMP_OPS = ["<", "<=", ">", ">=", "==", "!="]


def num_leaf(num_vars=NUM_VARS, floats=True):
    consts = st.sampled_from(INT_CONSTS + (FLOAT_CONSTS if floats else []))
    return st.one_of(
        st.sampled_from(num_vars).map(lambda n: ["var", n]),
        st.sampled_from(num_vars).map(lambda n: ["var", n]),
        consts.map(lambda c: ["const", c]),
    )


def typed_exprs(max_leaves=12, num_vars=NUM_VARS, agg_vars=AGG_VARS, funcs=FUNCS,
                with_bool=True, with_if=True, with_sub=True, with_call=True,
                with_pow=True, with_quot=True, floats=True, with_minmax=False, bool_literals=False):
    """Returns (num_strategy, bool_strategy) of well-typed trees."""

    def build(draw_depth):
        pass

    @st.composite
    def num(draw, depth):
        if depth <= 0:
            return draw(num_leaf(num_vars, floats))
        choices = ["leaf", "leaf", "sum", "sum", "prod", "prod"]
        if with_quot:
            choices.append("quot")
        if with_pow:
            choices.append("pow")
        if with_call:
            choices += ["call", "call"]
        if with_sub:
            choices.append("sub")
        if with_if and with_bool:
            choices += ["if"]
        if with_minmax:
            choices.append("minmax")
        c = draw(st.sampled_from(choices))
        d = depth - 1
        if c == "leaf":
            return draw(num_leaf(num_vars, floats))
        if c in ("sum", "prod"):
            n = draw(st.integers(2, 4))
            return [c] + [draw(num(d)) for _ in range(n)]
        if c == "quot":
            return ["quot", draw(num(d)), draw(num(d))]
        if c == "pow":
            e = draw(st.one_of(st.sampled_from([0, 1, 2, 3, -1]).map(lambda v: ["const", v]),
                               st.sampled_from([0, 1, 2, 3]).map(lambda v: ["const", v]),
                               num(min(d, 1))))
            return ["pow", draw(num(d)), e]
        if c == "call":
            f = draw(st.sampled_from(funcs))
            nargs = draw(st.integers(0, 3))
            args = [draw(num(d)) for _ in range(nargs)]
            kwn = draw(st.lists(st.sampled_from(KWNAMES), unique=True, max_size=2))
            kw = {n: draw(num(d)) for n in kwn}
            return ["call", f, args, kw]
        if c == "sub":
            return ["sub", ["var", draw(st.sampled_from(agg_vars))], [draw(num(d))]]
        if c == "if":
            return ["if", draw(boolean(d)), draw(num(d)), draw(num(d))]
        if c == "minmax":
            n = draw(st.integers(2, 3))
            return [draw(st.sampled_from(["min", "max"]))] + [draw(num(d)) for _ in range(n)]
        raise AssertionError(c)

    @st.composite
    def boolean(draw, depth):
        c = draw(st.sampled_from(["cmp", "cmp", "cmp", "and", "or", "not", "lit"] if depth > 0 else ["cmp", "cmp", "cmp", "lit"]))
        if c == "lit":
            if not bool_literals:
                c = "cmp"
            else:
                return ["const", draw(st.booleans())]
        d = depth - 1
        if c == "cmp":
            return ["cmp", draw(num(max(d, 0))), draw(st.sampled_from(CMP_OPS)), draw(num(max(d, 0)))]
        if c in ("and", "or"):
            n = draw(st.integers(2, 3))
            return [c] + [draw(boolean(d)) for _ in range(n)]
        if c == "not":
            return ["not", draw(boolean(d))]
        raise AssertionError(c)

    return num, boolean


def valuations(names, agg_names=(), n=8):
    """n exact rational points for the given variable names."""
    from fractions import Fraction
    vals = st.sampled_from([Fraction(v) for v in (-3, -2, -1, 0, 1, 2, 3, 4, 5)]
                           + [Fraction(1, 2), Fraction(-1, 2), Fraction(3, 2), Fraction(1, 4)])
    names = sorted(names)
    return st.lists(st.tuples(*[vals for _ in names]).map(lambda tup: dict(zip(names, tup))),
                    min_size=n, max_size=n)

"""Kind-inference support: function registry for generated programs, conformance, digests."""
import contextlib
import io


def make_registry(fortran=False):
    """Registry knowing the user functions progen emits (<func>f, g, two, note)."""
    from dagrt.data import Scalar
    from dagrt.function_registry import base_function_registry, register_function, register_ode_rhs
    freg = register_ode_rhs(base_function_registry, "y", identifier="<func>f", input_names=("y",))
    freg = register_function(freg, "<func>g", ("x",), result_names=("result",),
                             result_kinds=(Scalar(is_real_valued=True),))
    freg = register_function(freg, "<func>two", ("x",), result_names=("r1", "r2"),
                             result_kinds=(Scalar(is_real_valued=True), Scalar(is_real_valued=True)))
    from dagrt.data import UserType
    freg = register_function(freg, "<func>split", ("y",), result_names=("lo", "hi"),
                             result_kinds=(UserType("y"), UserType("y")))
    freg = register_function(freg, "<func>note", ("x",), result_names=(), result_kinds=())
    freg = register_function(freg, "<func>zero", (), result_names=("result",),
                             result_kinds=(Scalar(is_real_valued=True),))
    if fortran:
        import dagrt.codegen.fortran as f
        freg = freg.register_codegen("<func>f", "fortran", f.CallCode("""
            ${result} = -2*${y} + ${t}
            """))
        freg = freg.register_codegen("<func>g", "fortran", f.CallCode("""
            ${result} = ${x}*${x}/2d0
            """))
        freg = freg.register_codegen("<func>two", "fortran", f.CallCode("""
            ${r1} = ${x} + 1d0
            ${r2} = ${x}*2d0
            """))
        freg = freg.register_codegen("<func>split", "fortran", f.CallCode("""
            ${lo} = 2d0*${y}
            ${hi} = -${y}
            """))
        freg = freg.register_codegen("<func>note", "fortran", f.CallCode("""
            continue
            """))
        freg = freg.register_codegen("<func>zero", "fortran", f.CallCode("""
            ${result} = 3d0
            """))
    return freg


def quiet(fn, *a, **k):
    """Run fn capturing the diagnostics kind inference prints."""
    buf = io.StringIO()
    with contextlib.redirect_stdout(buf):
        r = fn(*a, **k)
    return r, buf.getvalue()


def kind_repr(k):
    if k is None:
        return "None"
    n = type(k).__name__
    if n in ("Scalar", "Array"):
        return "%s(%s)" % (n, "real" if k.is_real_valued else "complex")
    if n == "UserType":
        return "UserType(%s)" % k.identifier
    return n


def table_repr(skt):
    return {"global": {n: kind_repr(k) for n, k in sorted(skt.global_table.items())},
            "phases": {p: {n: kind_repr(k) for n, k in sorted(t.items())}
                       for p, t in sorted(skt.per_phase_table.items()) if t}}


def conforms(v, kind, is_uvec=None):
    """Does run-time value v conform to the inferred kind?"""
    import numpy as np
    n = type(kind).__name__
    is_arr = isinstance(v, np.ndarray) and v.ndim >= 1
    tagged = is_arr and (is_uvec(v) if is_uvec else False)
    if n == "Boolean":
        return isinstance(v, (bool, np.bool_))
    if n == "Integer":
        return isinstance(v, (int, np.integer)) and not isinstance(v, (bool, np.bool_))
    if n == "Scalar":
        if isinstance(v, (bool, np.bool_)) or is_arr:
            return False
        if isinstance(v, np.ndarray):
            v = v.item()
        if isinstance(v, (int, float, np.integer, np.floating)):
            return True
        if isinstance(v, (complex, np.complexfloating)):
            return not kind.is_real_valued
        return False
    if n == "Array":
        if not is_arr or tagged or v.ndim != 1:
            return False
        if np.iscomplexobj(v):
            return not kind.is_real_valued
        return v.dtype.kind in "fiu"
    if n == "UserType":
        return is_arr and tagged
    return False

"""JSON-able expression trees, conversion to/from pymbolic, independent evaluator.

["var", name] ["const", v] ["sum", a, b, ...] ["prod", ...] ["quot", a, b]
["pow", a, b] ["cmp", a, op, b] ["and", ...] ["or", ...] ["not", a]
["if", c, t, e] ["min", ...] ["max", ...] ["sub", agg, [i, ...]]
["call", fname, [args], {kw: tree}]
Constants: int, bool, float (exactly representable), ["frac", n, d] is not a
constant form -- fractions only arise during evaluation.
"""
import hashlib
from fractions import Fraction


class UndefinedRead(Exception):
    def __init__(self, name):
        Exception.__init__(self, "read of undefined variable %r" % name)
        self.name = name


class EvalError(Exception):
    pass


# ------------------------------------------------------------------ pymbolic

# Order in which the keyword arguments of a call are written down (and, in the reference, evaluated):
# by name, or by name reversed.  A property of the method being handled (method["kw_reverse"]), set by
# whoever starts handling a method (build_phase/build_dag/RefMachine).
KW_REVERSE = False


def set_kw_order(obj):
    global KW_REVERSE
    KW_REVERSE = bool(obj.get("kw_reverse", False)) if isinstance(obj, dict) else bool(obj)


def kw_names(kw):
    return sorted(kw, reverse=KW_REVERSE)


def special_constant(key):
    """Constants that JSON cannot carry: non-finite floats, numpy scalars, big integers."""
    import numpy as np
    table = {
        "inf": float("inf"), "-inf": float("-inf"), "nan": float("nan"),
        "np64:inf": np.float64("inf"), "np64:-inf": np.float64("-inf"), "np64:nan": np.float64("nan"),
        "np64:1.5": np.float64(1.5), "np64:-2.5": np.float64(-2.5), "np32:0.5": np.float32(0.5),
        "np32:-0.25": np.float32(-0.25), "npi64:-3": np.int64(-3), "npi64:4": np.int64(4), "npi32:7": np.int32(7),
        "-0.0": -0.0, "1e308": 1e308, "-1e308": -1e308, "5e-324": 5e-324, "1e-300": 1e-300, "-1e22": -1e22,
        "1e22": 1e22, "0.1": 0.1, "-0.1": -0.1, "1/3": 1.0 / 3.0, "2**70": 2 ** 70, "-2**70": -2 ** 70,
        "123456789012345678": 123456789012345678, "npc:1-2j": np.complex128(1 - 2j), "c:-1.5+0.5j": complex(-1.5, 0.5),
        "c:0-1j": complex(0, -1), "npc64:0.5+2j": np.complex64(0.5 + 2j),
    }
    return table[key]


def to_pymbolic(t):
    import pymbolic.primitives as p
    from immutabledict import immutabledict
    k = t[0]
    if k == "var":
        return p.Variable(t[1])
    if k == "const":
        if isinstance(t[1], list) and t[1] and t[1][0] == "complex":
            return complex(t[1][1], t[1][2])
        if isinstance(t[1], list) and t[1] and t[1][0] == "special":
            return special_constant(t[1][1])
        return t[1]
    if k == "sum":
        return p.Sum(tuple(to_pymbolic(c) for c in t[1:]))
    if k == "prod":
        return p.Product(tuple(to_pymbolic(c) for c in t[1:]))
    if k == "quot":
        return p.Quotient(to_pymbolic(t[1]), to_pymbolic(t[2]))
    if k == "pow":
        return p.Power(to_pymbolic(t[1]), to_pymbolic(t[2]))
    if k == "cmp":
        return p.Comparison(to_pymbolic(t[1]), t[2], to_pymbolic(t[3]))
    if k == "and":
        return p.LogicalAnd(tuple(to_pymbolic(c) for c in t[1:]))
    if k == "or":
        return p.LogicalOr(tuple(to_pymbolic(c) for c in t[1:]))
    if k == "not":
        return p.LogicalNot(to_pymbolic(t[1]))
    if k == "if":
        return p.If(to_pymbolic(t[1]), to_pymbolic(t[2]), to_pymbolic(t[3]))
    if k == "min":
        return p.Min(tuple(to_pymbolic(c) for c in t[1:]))
    if k == "max":
        return p.Max(tuple(to_pymbolic(c) for c in t[1:]))
    if k == "sub":
        idx = tuple(to_pymbolic(c) for c in t[2])
        return p.Subscript(to_pymbolic(t[1]), idx[0] if len(idx) == 1 else idx)
    if k == "lookup":
        return p.Lookup(to_pymbolic(t[1]), t[2])
    if k == "call":
        args = tuple(to_pymbolic(c) for c in t[2])
        kw = t[3] if len(t) > 3 else {}
        if kw:
            return p.CallWithKwargs(p.Variable(t[1]), args,
                                    immutabledict({n: to_pymbolic(kw[n]) for n in kw_names(kw)}))
        return p.Call(p.Variable(t[1]), args)
    raise ValueError("bad tree %r" % (t,))


def from_pymbolic(e):
    import numpy as np
    import pymbolic.primitives as p
    if isinstance(e, p.Variable):
        return ["var", e.name]
    if isinstance(e, (bool, np.bool_)):
        return ["const", bool(e)]
    if isinstance(e, (int, np.integer)):
        return ["const", int(e)]
    if isinstance(e, (float, np.floating)):
        return ["const", float(e)]
    if isinstance(e, complex):
        return ["const", ["complex", e.real, e.imag]]
    if isinstance(e, str):
        return ["const", ["str", e]]
    if isinstance(e, p.Sum):
        return ["sum"] + [from_pymbolic(c) for c in e.children]
    if isinstance(e, p.Product):
        return ["prod"] + [from_pymbolic(c) for c in e.children]
    if isinstance(e, p.Quotient):
        return ["quot", from_pymbolic(e.numerator), from_pymbolic(e.denominator)]
    if isinstance(e, p.Power):
        return ["pow", from_pymbolic(e.base), from_pymbolic(e.exponent)]
    if isinstance(e, p.Comparison):
        return ["cmp", from_pymbolic(e.left), e.operator, from_pymbolic(e.right)]
    if isinstance(e, p.LogicalAnd):
        return ["and"] + [from_pymbolic(c) for c in e.children]
    if isinstance(e, p.LogicalOr):
        return ["or"] + [from_pymbolic(c) for c in e.children]
    if isinstance(e, p.LogicalNot):
        return ["not", from_pymbolic(e.child)]
    if isinstance(e, p.If):
        return ["if", from_pymbolic(e.condition), from_pymbolic(e.then), from_pymbolic(e.else_)]
    if isinstance(e, p.Min):
        return ["min"] + [from_pymbolic(c) for c in e.children]
    if isinstance(e, p.Max):
        return ["max"] + [from_pymbolic(c) for c in e.children]
    if isinstance(e, p.Subscript):
        idx = e.index if isinstance(e.index, tuple) else (e.index,)
        return ["sub", from_pymbolic(e.aggregate), [from_pymbolic(i) for i in idx]]
    if isinstance(e, p.Lookup):
        return ["lookup", from_pymbolic(e.aggregate), e.name]
    if isinstance(e, p.CallWithKwargs):
        return ["call", _fname(e.function), [from_pymbolic(a) for a in e.parameters],
                {n: from_pymbolic(v) for n, v in sorted(e.kw_parameters.items())}]
    if isinstance(e, p.Call):
        return ["call", _fname(e.function), [from_pymbolic(a) for a in e.parameters], {}]
    if isinstance(e, tuple):
        return ["tuple"] + [from_pymbolic(c) for c in e]
    raise ValueError("cannot convert %s %r" % (type(e).__name__, e))


def _fname(f):
    import pymbolic.primitives as p
    if isinstance(f, p.Variable):
        return f.name
    raise ValueError("call of non-variable %r" % (f,))


# ------------------------------------------------------------------ structure

def children(t):
    k = t[0]
    if k in ("var", "const"):
        return []
    if k in ("sum", "prod", "and", "or", "min", "max", "tuple"):
        return list(t[1:])
    if k in ("quot", "pow"):
        return [t[1], t[2]]
    if k == "cmp":
        return [t[1], t[3]]
    if k in ("not", "lookup"):
        return [t[1]]
    if k == "if":
        return [t[1], t[2], t[3]]
    if k == "sub":
        return [t[1]] + list(t[2])
    if k == "call":
        kw = t[3] if len(t) > 3 else {}
        return list(t[2]) + [kw[n] for n in sorted(kw)]
    raise ValueError(t)


def rebuild(t, ch):
    k = t[0]
    if k in ("var", "const"):
        return t
    if k in ("sum", "prod", "and", "or", "min", "max", "tuple"):
        return [k] + list(ch)
    if k in ("quot", "pow"):
        return [k, ch[0], ch[1]]
    if k == "cmp":
        return ["cmp", ch[0], t[2], ch[1]]
    if k == "not":
        return ["not", ch[0]]
    if k == "lookup":
        return ["lookup", ch[0], t[2]]
    if k == "if":
        return ["if", ch[0], ch[1], ch[2]]
    if k == "sub":
        return ["sub", ch[0], list(ch[1:])]
    if k == "call":
        kw = t[3] if len(t) > 3 else {}
        n = len(t[2])
        return ["call", t[1], list(ch[:n]), dict(zip(sorted(kw), ch[n:]))]
    raise ValueError(t)


def variables(t, acc=None, include_functions=False, include_aggregates=True):
    """Names of variables occurring in t (call targets only if asked)."""
    acc = set() if acc is None else acc
    k = t[0]
    if k == "var":
        acc.add(t[1])
    elif k == "call":
        if include_functions:
            acc.add(t[1])
        for c in children(t):
            variables(c, acc, include_functions, include_aggregates)
    else:
        for c in children(t):
            variables(c, acc, include_functions, include_aggregates)
    return acc


def depth(t):
    ch = children(t)
    return 1 + (max(depth(c) for c in ch) if ch else 0)


def size(t):
    return 1 + sum(size(c) for c in children(t))


def kinds(t, acc=None):
    acc = set() if acc is None else acc
    acc.add(t[0])
    for c in children(t):
        kinds(c, acc)
    return acc


def substitute(t, mapping):
    if t[0] == "var" and t[1] in mapping:
        return mapping[t[1]]
    if t[0] == "call" and t[1] in mapping and mapping[t[1]][0] == "var":
        t = ["call", mapping[t[1]][1], t[2], t[3] if len(t) > 3 else {}]
    return rebuild(t, [substitute(c, mapping) for c in children(t)])


# ------------------------------------------------------------------ evaluation

def to_exact(v):
    if isinstance(v, bool):
        return v
    if isinstance(v, int):
        return Fraction(v)
    if isinstance(v, float):
        return Fraction(v)
    if isinstance(v, Fraction):
        return v
    if isinstance(v, list) and v and v[0] == "complex":
        raise EvalError("complex constant")
    raise EvalError("unsupported constant %r" % (v,))


def oracle_value(salt, *parts):
    """Deterministic 'random oracle' interpretation of uninterpreted symbols."""
    h = hashlib.sha256(repr((salt,) + parts).encode()).digest()
    return Fraction(int.from_bytes(h[:2], "big") % 41 - 20)


def _norm(v):
    if isinstance(v, Fraction):
        return ("Q", v.numerator, v.denominator)
    if isinstance(v, bool):
        return ("B", v)
    return ("X", repr(v))


class Evaluator:
    """Evaluates trees exactly (Fractions, bools).

    env       : name -> value; missing name -> UndefinedRead
    call      : callable(name, args, kwargs) -> value (default: random oracle)
    subscript : callable(aggregate value, aggregate tree, index values) -> value
    """

    def __init__(self, env, call=None, subscript=None, salt=0):
        self.env = env
        self.salt = salt
        self.call = call or self._oracle_call
        self.subscript = subscript or self._oracle_subscript

    def _oracle_call(self, name, args, kwargs):
        return oracle_value(self.salt, "call", name, tuple(_norm(a) for a in args),
                            tuple(sorted((k, _norm(v)) for k, v in kwargs.items())))

    def _oracle_subscript(self, agg, aggtree, idx):
        return oracle_value(self.salt, "sub", _norm(agg), tuple(_norm(i) for i in idx))

    def __call__(self, t):
        return self.rec(t)

    def partial(self, v):
        """Hook for intermediate results that are not the value of a node (partial sums and products)."""
        return v

    def rec(self, t):
        k = t[0]
        if k == "var":
            if t[1] not in self.env:
                raise UndefinedRead(t[1])
            return self.env[t[1]]
        if k == "const":
            return to_exact(t[1])
        if k == "sum":
            r = self.rec(t[1])
            for c in t[2:]:
                r = self.partial(r + self.rec(c))      # partial results in the order a left-to-right evaluation makes them
            return r
        if k == "prod":
            r = self.rec(t[1])
            for c in t[2:]:
                r = self.partial(r * self.rec(c))
            return r
        if k == "quot":
            n = self.rec(t[1])
            d = self.rec(t[2])
            if isinstance(d, Fraction) and d == 0:
                raise ZeroDivisionError()
            return n / d
        if k == "pow":
            b = self.rec(t[1])
            e = self.rec(t[2])
            if isinstance(e, Fraction) and e.denominator == 1 and isinstance(b, Fraction):
                e = int(e)
                if e < 0 and b == 0:
                    raise ZeroDivisionError()
                if abs(e) > 64:
                    raise EvalError("exponent too large")
                return b ** e
            raise EvalError("non-integer power")
        if k == "cmp":
            a = self.rec(t[1])
            b = self.rec(t[3])
            op = t[2]
            if op == "==":
                return a == b
            if op == "!=":
                return a != b
            if op == "<":
                return a < b
            if op == "<=":
                return a <= b
            if op == ">":
                return a > b
            if op == ">=":
                return a >= b
            raise EvalError("bad operator %r" % op)
        if k == "and":
            for c in t[1:]:
                if not self.rec(c):
                    return False
            return True
        if k == "or":
            for c in t[1:]:
                if self.rec(c):
                    return True
            return False
        if k == "not":
            return not self.rec(t[1])
        if k == "if":
            return self.rec(t[2]) if self.rec(t[1]) else self.rec(t[3])
        if k == "min":
            return min(self.rec(c) for c in t[1:])
        if k == "max":
            return max(self.rec(c) for c in t[1:])
        if k == "sub":
            agg = self.rec(t[1])
            idx = [self.rec(c) for c in t[2]]
            return self.subscript(agg, t[1], idx)
        if k == "lookup":
            v = self.rec(t[1])
            if t[2] == "real":
                return v
            if t[2] == "imag":
                return v * 0
            raise EvalError("unknown attribute %s" % t[2])
        if k == "call":
            args = [self.rec(c) for c in t[2]]
            kw = t[3] if len(t) > 3 else {}
            kwv = {n: self.rec(kw[n]) for n in kw_names(kw)}
            return self.call(t[1], args, kwv)
        raise EvalError("bad tree %r" % (t,))

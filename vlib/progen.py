"""Hypothesis strategy for typed, def-before-use dagrt builder programs ("methods as data").

A method is JSON:
  {"phases": [{"name", "next", "body": [op...]}], "initial", "state": {name: value},
   "t0", "dt0", "ulen"}
op:
  ["assign", name, sub|None, rhs_tree, [[ident, lo_tree, hi_tree], ...]]
  ["call", [assignees], fname, [arg trees], {kw: tree}]
  ["if", cond_tree, [ops], [ops]|None]
  ["yield", expr_tree, component, time_tree, time_id]
  ["fail"] ["switch", phase] ["restart"] ["raise", errname, msg]

Types: "int" (value known at generation time), "real", "flag", ["arr", n], "uvec".
Everything random is drawn from Hypothesis.
"""
from hypothesis import strategies as st

INT, REAL, FLAG, UVEC, CPLX = "int", "real", "flag", "uvec", "cplx"

DEFAULT_PROFILE = dict(
    max_phases=3, max_ops=10, max_depth=3,
    arrays=True, uvecs=True, calls=True, ifs=True, exits=True, yields=True, loops=True,
    int_vars=True, flags=True, minmax=True, ifexpr=True, powers=True, quotients=True,
    kwargs=True, multi_result=True, zero_result=True, alias_arrays=True,
    whole_array_ops=True, array_builtins=True, matmul=True, isnan=True,
    subscript_whole_array_results=True, raise_=True, nested_calls=True,
    persistent_arrays=True, name_pool="plain", zero_trip=True, negative_consts=True,
    dead_code=True, cond_in_call_args=True, bare_power=True, ne_operator=True,
    pow_of_pow=True, loop_bound_vars=True, fresh_names=False, lookups=False, complex_vars=False, assign_all_state=False, time_advance=True, force_phases=None, extra_kinds=(), zero_arg_calls=True, builtin_set=None, yield_uvec_only=False, matmul_only=False, yield_call_free=False, minmax_loop_counter=True, builtin_kwargs=True, uvfn_boost=False, kw_reverse=True, triangular=True, recall=True, int_reassign=True, acc_loops=True, guarded_partial=True, split_calls=True, dt_change=True, surfaces=True, loop_vars=None, float_int_consts=True, reuse_ids=False, call_in_bounds=False, array_recreate=True,
    real_temps=None, uvec_temps=None, arr_temps=None, flag_temps=None, int_temps=None,
)

# "v1"/"v2" are in every pool: within a phase a name keeps its type, but another phase may
# re-use it with a different type (temporaries are per phase)
REAL_TEMPS = ["x", "y1", "z", "w", "acc", "err", "v1", "v2"]
INT_TEMPS = ["n", "m", "q"]
ARR_TEMPS = ["a", "b", "c", "v1"]
UVEC_TEMPS = ["k1", "k2", "ynew", "rhs", "v2"]
FLAG_TEMPS = ["flag", "ok", "v1"]
CPLX_TEMPS = ["c1", "c2", "v2"]
CARR_TEMPS = ["ca", "cb"]
ADVERSARIAL = {
    "real": ["tmp", "temp", "tmp_0", "temp_0", "ifthenelse_result", "temp__state_y", "temp_x"],
    "uvec": ["temp_k1", "tmp_1", "temp"],
    "flag": ["cond", "cond_0", "ifthenelse_cond"],
}
P_REAL = ["<p>s", "<p>last", "<state>r", "<state>ex", "<state>tau"]   # (component names starting with s, t, a, e too)
P_UVEC = ["<state>y", "<state>u", "<p>yold"]
P_ARR = ["<p>hist"]
P_INT = ["<p>n"]
LOOP_VARS = ["i", "j"]
COMPONENTS = ["y", "u", "s"]
TIME_IDS = ["final", "stage1"]
ERRORS = ["MyError", "OtherError"]

REAL_CONSTS = [0, 1, 2, 3, 4, 5, 7, 9, 0.5, 0.25, 1.5, 2.5]
NEG_CONSTS = [-1, -2, -3, -4, -0.5]
DIVISORS = [2, 4, 8, -2, -4]


def V(name):
    return ["var", name]


def C(v):
    return ["const", v]


class Gen:
    def __init__(self, draw, profile):
        self.draw = draw
        self.p = dict(DEFAULT_PROFILE)
        self.p.update(profile or {})
        self.types = {}       # name -> type (global per method; a name never changes type)
        self.ints = {}        # int variable name -> known value
        self.defined = {}     # name -> type, definitely assigned on the current path
        self.ulen = draw(st.integers(1, 3))
        self.loop_env = {}    # loop var -> (lo, hi) known range while generating a looped statement
        self.phase_names = []
        self.features = set()
        self.lbound1 = set()   # arrays that gfortran (re)allocates 1-based (results of whole-array expressions)
        self.REAL_TEMPS = self.p["real_temps"] or REAL_TEMPS
        self.UVEC_TEMPS = self.p["uvec_temps"] or UVEC_TEMPS
        self.ARR_TEMPS = self.p["arr_temps"] or ARR_TEMPS
        self.FLAG_TEMPS = self.p["flag_temps"] or FLAG_TEMPS
        self.INT_TEMPS = self.p["int_temps"] or INT_TEMPS
        self.LV = list(self.p["loop_vars"] or LOOP_VARS)

    # ---- small helpers
    def bcall(self, f, args):
        """Call of a built-in; with profile builtin_kwargs some trailing arguments are passed by
        keyword, using the documented argument names."""
        from vlib.refexec import BUILTIN_ARG_NAMES
        names = BUILTIN_ARG_NAMES.get(f)
        if names and self.p["builtin_kwargs"] and self.p["kwargs"] and self.chance(30):
            k = self.draw(st.integers(0, len(args) - 1)) if len(args) > 1 else 0
            return ["call", f, list(args[:k]), {names[i]: args[i] for i in range(k, len(args))}]
        return ["call", f, list(args), {}]

    def allowed(self, names):
        bs = self.p["builtin_set"]
        if bs is None:
            return names
        out = [n for n in names if n in bs]
        if "<builtin>norm_2" in bs:
            out = out + ["<builtin>norm_2", "<builtin>norm_2"]    # inexact: only where values are not compared
        return out or ["<builtin>len"]

    def choice(self, seq):
        return self.draw(st.sampled_from(list(seq)))

    def chance(self, pct):
        return self.draw(st.integers(0, 99)) < pct

    def names_of(self, typ):
        if typ == "arr":
            return [n for n, t in self.defined.items() if isinstance(t, list) and t[0] == "arr"]
        if typ == "arr_indexable":
            out = [n for n, t in self.defined.items() if isinstance(t, list) and t[0] == "arr"]
            if not self.p["subscript_whole_array_results"]:
                out = [n for n in out if n not in self.lbound1]
            return out
        return [n for n, t in self.defined.items() if t == typ]

    def define(self, name, typ):
        self.types[name] = typ
        self.defined[name] = typ

    def fresh_or_existing(self, typ, pool, persistent_pool=()):
        """Pick an assignee name of the given type (existing typed name or unused pool name)."""
        cands = []
        for n in list(pool) + list(persistent_pool):
            t = self.types.get(n)
            if t is None:
                if n in persistent_pool:
                    continue          # persistent names are fixed up front
                cands.append(n)
            elif t == typ:
                cands.append(n)
        if self.p["name_pool"] == "adversarial" and typ in ADVERSARIAL:
            for n in ADVERSARIAL[typ]:
                if self.types.get(n, typ) == typ:
                    cands.append(n)
        return self.choice(cands) if cands else None

    # ---- integer expressions with known value
    def int_expr(self, lo=None, hi=None):
        """(tree, value) with lo <= value <= hi when given; built from int vars/consts/loop vars
        only when the whole range is inside [lo, hi]."""
        opts = []
        for n in self.names_of(INT):
            v = self.ints[n]
            if (lo is None or v >= lo) and (hi is None or v <= hi):
                opts.append((V(n), v))
        a = 0 if lo is None else lo
        b = a + 4 if hi is None else hi
        if a <= b:
            c = self.draw(st.integers(a, min(b, a + 6)))
            opts.append((C(c), c))
            opts.append((C(c), c))
        if not opts:
            return None
        t, v = self.choice(opts)
        # n - 1, n + 1 forms
        if t[0] == "var" and self.chance(45):
            d = self.choice([1, -1])
            if (lo is None or v + d >= lo) and (hi is None or v + d <= hi):
                return ["sum", t, C(d)], v + d
        return t, v

    def index_expr(self, n):
        """An int-valued tree provably inside [0, n)."""
        opts = []
        for lv, (lo, hi) in self.loop_env.items():
            if lo >= 0 and hi <= n:
                opts.append(V(lv))
            if lo + 1 >= 0 and hi + 1 <= n and hi > lo:
                opts.append(["sum", V(lv), C(1)])
        r = self.int_expr(0, n - 1)
        if r is not None:
            opts.append(r[0])
            opts.append(r[0])
        return self.choice(opts)

    # ---- real expressions
    def real_leaf(self):
        opts = ["const", "const"]
        reals = self.names_of(REAL)
        if reals:
            opts += ["var"] * 4
        if self.names_of(INT) or self.loop_env:
            opts.append("int")
        k = self.choice(opts)
        if k == "var":
            if self.p["lookups"] and self.chance(20):
                self.features.add("lookup")
                return ["lookup", V(self.choice(reals)), self.choice(["real", "real", "imag"])]
            return V(self.choice(reals))
        if k == "int":
            cands = [V(n) for n in self.names_of(INT)] + [V(lv) for lv in self.loop_env]
            return self.choice(cands)
        consts = REAL_CONSTS + (NEG_CONSTS if self.p["negative_consts"] else [])
        if self.p["float_int_consts"]:
            consts = consts + [2.0, 4.0, 3.0]     # equal to an integer constant, but of another type (printed differently)
        return C(self.choice(consts))

    def real_expr(self, depth):
        if depth <= 0:
            return self.real_leaf()
        opts = ["leaf", "sum", "sum", "prod", "prod"]
        if self.p["quotients"]:
            opts.append("quot")
        if self.p["powers"]:
            opts.append("pow")
        if self.p["minmax"]:
            opts.append("minmax")
        if self.p["ifexpr"]:
            opts.append("if")
        arrs = self.names_of("arr")
        iarrs = self.names_of("arr_indexable")
        if iarrs:
            opts += ["sub", "sub"]
        if arrs:
            if self.p["array_builtins"]:
                opts.append("arrfn")
        uv = self.names_of(UVEC)
        if uv and self.p["array_builtins"]:
            opts.append("uvfn")
            if self.p["uvfn_boost"]:
                opts += ["uvfn"] * 4
        if self.p["calls"] and self.p["nested_calls"]:
            opts.append("call")
        k = self.choice(opts)
        d = depth - 1
        if k == "leaf":
            return self.real_leaf()
        if k in ("sum", "prod"):
            n = self.choice([2, 2, 3])
            ch = [self.real_expr(d) for _ in range(n)]
            return normal([k] + ch)
        if k == "quot":
            return normal(["quot", self.real_expr(d), C(self.choice(DIVISORS))])
        if k == "pow":
            base = self.real_expr(d)
            if base[0] == "pow" and not self.p["pow_of_pow"]:
                base = self.real_leaf()
            e = self.choice([2, 2, 3, 0])
            if base[0] == "const" and base[1] < 0 and False:
                base = C(-base[1])
            return ["pow", base, C(e)]
        if k == "minmax":
            args = [self.real_expr(d), self.real_expr(d)]
            if not self.p["minmax_loop_counter"]:
                args = [C(2) if integer_typed(a, self.loop_env) else a for a in args]
            return [self.choice(["min", "max"])] + args
        if k == "if":
            self.features.add("ifexpr")
            then = self.real_expr(d)
            if self.chance(30):
                # a conditional directly in the THEN branch (printing it needs parentheses)
                then = ["if", self.bool_expr(max(d - 1, 0)), self.real_leaf(), self.real_leaf()]
                self.features.add("if_in_then")
            els = self.real_expr(d)
            if self.chance(30):
                # an elif chain: a conditional directly in the ELSE position
                els = ["if", self.bool_expr(max(d - 1, 0)), self.real_leaf(), self.real_leaf()]
                if self.chance(40):
                    els[3] = ["if", self.bool_expr(0), self.real_leaf(), self.real_leaf()]
                self.features.add("if_in_else")
            return ["if", self.bool_expr(d), then, els]
        if k == "sub":
            a = self.choice(iarrs)
            return ["sub", V(a), [self.index_expr(self.defined[a][1])]]
        if k == "arrfn":
            a = self.choice(arrs)
            f = self.choice(self.allowed(["<builtin>len", "<builtin>norm_1", "<builtin>norm_inf", "<builtin>dot_product"]))
            if f == "<builtin>dot_product":
                same = [b for b in arrs if self.defined[b][1] == self.defined[a][1]]
                return self.bcall(f, [V(a), V(self.choice(same))])
            return self.bcall(f, [V(a)])
        if k == "uvfn":
            u = self.choice(uv)
            f = self.choice(self.allowed(["<builtin>len", "<builtin>norm_1", "<builtin>norm_inf", "<builtin>dot_product"]))
            if f == "<builtin>dot_product":
                return self.bcall(f, [V(u), V(self.choice(uv))])
            return self.bcall(f, [V(u)])
        if k == "call":
            self.features.add("nested_call")
            arg = self.real_expr(d)
            if not self.p["cond_in_call_args"] and arg[0] == "if":
                arg = self.real_leaf()
            if self.p["kwargs"] and self.chance(30):
                return ["call", "<func>g", [], {"x": arg}]
            return ["call", "<func>g", [arg], {}]
        raise AssertionError(k)

    def bool_expr(self, depth):
        opts = ["cmp", "cmp", "cmp"]
        flags = self.names_of(FLAG)
        if flags:
            opts += ["flag", "flag"]
        if depth > 0:
            opts += ["and", "or", "not"]
        if self.p["isnan"] and self.names_of(REAL):
            opts.append("isnan")
        k = self.choice(opts)
        d = depth - 1
        if k == "cmp":
            ops = ["<", "<=", ">", ">=", "=="] + (["!="] if self.p["ne_operator"] else [])
            return ["cmp", self.real_expr(max(d, 0)), self.choice(ops), self.real_expr(max(d, 0))]
        if k == "flag":
            return V(self.choice(flags))
        if k in ("and", "or"):
            first = self.bool_expr(d)
            if self.chance(40):
                # the other operator directly underneath (precedence of the printed form matters)
                other = "or" if k == "and" else "and"
                first = [other, self.bool_expr(max(d - 1, 0)), self.bool_expr(max(d - 1, 0))]
            ch = [first, self.bool_expr(d)]
            if self.chance(50):
                ch.reverse()
            return [k] + ch
        if k == "not":
            return ["not", self.bool_expr(d)]
        if k == "isnan":
            return self.bcall("<builtin>isnan", [V(self.choice(self.names_of(REAL)))])
        raise AssertionError(k)

    # ---- complex-valued scalars (kind-inference profiles only; the exact reference cannot run them)
    def cplx_leaf(self):
        cv = self.names_of(CPLX)
        if cv and self.chance(60):
            return V(self.choice(cv))
        if self.chance(25):
            # a literal of complex type whose imaginary part happens to be zero (never 0 or 1: flatten drops those)
            return C(["complex", self.choice([0.5, 2, -1.5]), 0])
        return C(["complex", self.choice([0, 1, 0.5]), self.choice([1, -1, 2, 0.5])])

    def cplx_expr(self, depth):
        if depth <= 0:
            return self.cplx_leaf()
        k = self.choice(["leaf", "sum", "sum", "prod", "prod", "quot", "cpow"])
        if k == "leaf":
            return self.cplx_leaf()
        if k == "cpow":
            # a real base with a complex exponent: the result is complex because of the exponent alone
            return ["pow", C(self.choice([2, 0.5, 3])), self.cplx_expr(depth - 1)]
        if k == "quot":
            # real over complex, complex over real, complex over complex (constants: never zero)
            num = self.cplx_expr(depth - 1) if self.chance(50) else self.real_expr(min(depth - 1, 1))
            den = C(["complex", self.choice([1, 2]), self.choice([1, -1, 2])]) if self.chance(70) else C(self.choice(DIVISORS))
            if den[1] in DIVISORS or isinstance(den[1], (int, float)):
                num = self.cplx_expr(depth - 1)
            return ["quot", num, den]
        ch = [self.cplx_expr(depth - 1)]
        for _ in range(self.draw(st.integers(1, 2))):
            ch.append(self.cplx_expr(depth - 1) if self.chance(30) else self.real_expr(min(depth - 1, 1)))
        ch = list(self.draw(st.permutations(ch)))
        return normal([k] + ch)

    def op_assign_cplx(self):
        pers = [n for n in ["<p>cz"] if self.types.get(n) == CPLX]
        name = self.fresh_or_existing(CPLX, CPLX_TEMPS, pers)
        if name is None:
            return []
        rhs = self.cplx_expr(self.draw(st.integers(0, 2)))
        self.define(name, CPLX)
        self.features.add("complex")
        return [["assign", name, None, rhs, []]]

    def op_assign_carr(self):
        """Complex array: complex scalar times a real array (either order), optionally plus arrays."""
        arrs = self.names_of("arr")
        if not arrs:
            return []
        a = self.choice(arrs)
        n = self.defined[a][1]
        cands = [x for x in CARR_TEMPS if self.types.get(x, ["carr", n]) == ["carr", n]]
        if not cands:
            return []
        name = self.choice(cands)
        fac = [self.cplx_leaf(), V(a)]
        if self.chance(50):
            fac.reverse()
        rhs = normal(["prod"] + fac)
        same = [x for x, t in self.defined.items() if t == ["carr", n]]
        if self.chance(40):
            other = V(self.choice(same)) if same and self.chance(50) else V(a)
            terms = [rhs, other]
            if self.chance(50):
                terms.reverse()
            rhs = normal(["sum"] + terms)
        self.define(name, ["carr", n])
        self.features.add("complex_array")
        return [["assign", name, None, rhs, []]]

    def op_carr_builtin(self):
        """A built-in whose result kind follows one of its arguments, applied to a complex array as a call
        statement (keywords in either order): transpose keeps it complex, elementwise_abs makes it real."""
        carrs = [x for x, t in self.defined.items() if isinstance(t, list) and t[0] == "carr"]
        if not carrs:
            ops = self.op_assign_carr()
            carrs = [x for x, t in self.defined.items() if isinstance(t, list) and t[0] == "carr"]
            if not carrs:
                return ops
        else:
            ops = []
        src = self.choice(carrs)
        n = self.defined[src][1]
        if self.chance(65):
            cands = [x for x in CARR_TEMPS if self.types.get(x, ["carr", n]) == ["carr", n]]
            if not cands:
                return ops
            name = self.choice(cands)
            divs = [c for c in range(1, n + 1) if n % c == 0]
            c_ = self.bcall("<builtin>transpose", [V(src), C(self.choice(divs))])
            if self.p["kwargs"] and self.chance(60):
                c_ = ["call", "<builtin>transpose", [], {"a": V(src), "a_cols": C(self.choice(divs))}]   # all by keyword
            self.define(name, ["carr", n])
        else:
            cands = [x for x in self.ARR_TEMPS if self.types.get(x, ["arr", n]) == ["arr", n]]
            if not cands:
                return ops
            name = self.choice(cands)
            c_ = self.bcall("<builtin>elementwise_abs", [V(src)])
            self.define(name, ["arr", n])
            self.lbound1.add(name)
        self.features.add("complex_array_builtin")
        return ops + [["call", [name], c_[1], c_[2], c_[3]]]

    def op_real_from_cplx(self):
        cv = self.names_of(CPLX)
        name = self.fresh_or_existing(REAL, self.REAL_TEMPS)
        if not cv or name is None:
            return []
        self.define(name, REAL)
        return [["call", [name], "<builtin>elementwise_abs", [V(self.choice(cv))], {}]]

    def coef(self, depth):
        """A real coefficient for a vector/array term: never the literal 0 (flatten would
        turn 0*v into the scalar 0)."""
        c = self.real_expr(depth)
        if c in (["const", 0], ["const", 1]):
            c = ["const", 2]        # flatten drops 0*v (-> 0) and 1*v (-> v, a plain copy)
        return c

    # ---- vector expressions (user type): linear combinations
    def uvec_expr(self, depth):
        uv = self.names_of(UVEC)
        opts = ["var", "lin", "lin", "scale"]
        if self.p["array_builtins"] and (self.p["builtin_set"] is None or "<builtin>elementwise_abs" in self.p["builtin_set"]):
            opts.append("abs")
        if self.p["calls"] and self.p["nested_calls"]:
            opts.append("call")
        k = self.choice(opts) if depth > 0 else "var"
        if k == "var":
            return V(self.choice(uv))
        if k == "scale":
            return normal(["prod", self.coef(min(depth - 1, 1)), V(self.choice(uv))])
        if k == "lin":
            n = self.choice([2, 2, 3])
            terms = []
            for _ in range(n):
                if self.chance(50):
                    terms.append(normal(["prod", self.coef(min(depth - 1, 1)), self.uvec_expr(0)]))
                else:
                    terms.append(self.uvec_expr(depth - 1))
            return normal(["sum"] + terms)
        if k == "abs":
            return self.bcall("<builtin>elementwise_abs", [self.uvec_expr(depth - 1)])
        if k == "call":
            self.features.add("nested_call")
            t = self.real_expr(0)
            y = self.uvec_expr(depth - 1)
            if self.p["kwargs"] and self.chance(40):
                return ["call", "<func>f", [t], {"y": y}]
            return ["call", "<func>f", [t, y], {}]
        raise AssertionError(k)

    def arr_expr(self, n):
        """Whole-array expression of length n."""
        r = self._arr_expr(n)
        if r[0] == "var":           # never a plain copy (aliasing is a separate, switchable feature)
            r = ["prod", ["const", 2], r]
        return r

    def _arr_expr(self, n):
        same = [a for a in self.names_of("arr") if self.defined[a][1] == n]
        k = self.choice(["scale", "lin", "abs"] if self.p["array_builtins"] and (
            self.p["builtin_set"] is None or "<builtin>elementwise_abs" in self.p["builtin_set"]) else ["scale", "lin"])
        if k == "scale":
            return normal(["prod", self.coef(1), V(self.choice(same))])
        if k == "lin":
            return normal(["sum", normal(["prod", self.coef(0), V(self.choice(same))]), V(self.choice(same))])
        return ["call", "<builtin>elementwise_abs", [V(self.choice(same))], {}]

    # ---- statements
    def op_assign_real(self):
        name = self.fresh_or_existing(REAL, self.REAL_TEMPS, [n for n in P_REAL if self.types.get(n) == REAL])
        if name is None:
            return []
        rhs = self.real_expr(self.draw(st.integers(0, 3)))
        if name in self.defined and self.chance(35):
            rhs = normal(["sum", V(name), rhs])          # self-update x <- x + ...
            self.features.add("self_update")
        if self.p["bare_power"] is False and rhs[0] == "pow":
            rhs = normal(["sum", rhs, C(1)])
        self.define(name, REAL)
        return [["assign", name, None, rhs, []]]

    def op_assign_flag(self):
        name = self.fresh_or_existing(FLAG, self.FLAG_TEMPS)
        if name is None:
            return []
        rhs = self.bool_expr(self.draw(st.integers(0, 2)))
        if rhs[0] == "var":
            rhs = ["not", rhs]
        self.define(name, FLAG)
        return [["assign", name, None, rhs, []]]

    def op_assign_int(self, depth):
        if depth > 0 or not self.p["int_vars"]:
            return []
        cands = [n for n in self.INT_TEMPS if self.types.get(n, INT) == INT and n not in self.defined]
        redo = [n for n in self.INT_TEMPS if self.defined.get(n) == INT]
        if redo and self.p["int_reassign"] and (not cands or self.chance(40)):
            # straight-line code only (depth 0), so the new value is known as well: write-after-read
            # hazards on loop bounds, array lengths and indices
            cands = redo
            self.features.add("int_reassign")
        if not cands:
            return []
        name = self.choice(cands)
        r = self.int_expr(0, 4) if self.chance(80) else self.int_expr(0, 0)
        if r is None:
            return []
        t, v = r
        self.define(name, INT)
        self.ints[name] = v
        return [["assign", name, None, t, []]]

    def op_assign_uvec(self):
        uv = self.names_of(UVEC)
        if not uv:
            return []
        pers = [n for n in P_UVEC if self.types.get(n) == UVEC]
        name = self.fresh_or_existing(UVEC, self.UVEC_TEMPS, pers)
        if name is None:
            return []
        rhs = self.uvec_expr(self.draw(st.integers(0, 2)))
        if name in self.defined and self.chance(30) and rhs != V(name):
            rhs = normal(["sum", V(name), normal(["prod", self.coef(0), rhs])]) if rhs[0] == "var" else normal(["sum", V(name), rhs])
            self.features.add("self_update")
        if rhs[0] == "var":
            self.features.add("uvec_move")
        self.define(name, UVEC)
        return [["assign", name, None, rhs, []]]

    def loop_for(self, lo_hi_max):
        """Draw a loop header [ident, lo_tree, hi_tree] with known range inside [0, max]."""
        lv = self.choice([l for l in self.LV if l not in self.loop_env])
        n = lo_hi_max
        kind = self.choice(["full", "full", "full", "part", "zero", "one"] if self.p["zero_trip"]
                           else ["full", "full", "part", "one"])
        if kind == "full":
            lo, hi = 0, n
        elif kind == "part":
            lo = self.draw(st.integers(0, n))
            hi = self.draw(st.integers(lo, n))
        elif kind == "zero":
            lo = self.draw(st.integers(0, n))
            hi = lo
        else:
            lo = self.draw(st.integers(0, max(n - 1, 0)))
            hi = min(lo + 1, n)

        bound = self.bound_tree
        return lv, lo, hi, [lv, bound(lo), bound(hi)]

    def bound_tree(self, v):
        """A loop bound with value v: an integer variable holding it (or one more) when there is one."""
        if self.p["call_in_bounds"] and self.p["calls"] and getattr(self, "cur_depth", 0) == 0 and self.chance(20):
            # (only for unguarded statements: the structured back ends put the guard inside the loop nest and so evaluate
            # the bounds of a guarded statement even when its guard is false - one more call of a pure function than the
            # interpreter makes, which would make fault plans differ between the back ends)
            # the bound is the result of a user function (evaluated before any counter is set)
            self.features.add("call_in_bound")
            inner = C(v)
            for nme in self.names_of(INT):
                if self.ints[nme] == v:
                    inner = V(nme)
            return ["call", "<func>cnt", [inner], {}]
        if self.p["loop_bound_vars"]:
            for nme in self.names_of(INT):
                if self.ints[nme] == v and self.chance(60):
                    return V(nme)
                if self.ints[nme] - 1 == v and self.chance(30):
                    return ["sum", V(nme), C(-1)]
        return C(v)

    def op_new_array(self, depth, force_len=None):
        if not self.p["arrays"]:
            return []
        pers = [n for n in P_ARR if isinstance(self.types.get(n), list) or False]
        cands = [n for n in self.ARR_TEMPS if n not in self.types]
        again = [n for n in self.ARR_TEMPS if isinstance(self.defined.get(n), list) and self.defined[n][0] == "arr"]
        recreate = None
        if again and force_len is None and self.p["array_recreate"] and (not cands or self.chance(25)):
            # array() once more on a variable that already holds an array, with another length
            recreate = self.choice(again)
            cands = [recreate]
            self.features.add("array_recreate")
        if not cands:
            return []
        name = self.choice(cands)
        r = self.int_expr(1, 6) if self.chance(40) else self.int_expr(1, 4)
        if recreate is not None:
            old_n = self.defined[recreate][1]
            r = self.int_expr(old_n + 1, 6) if old_n < 6 and self.chance(60) else self.int_expr(1, max(old_n - 1, 1))
            if r is None or r[1] == old_n:
                return []
        if self.p["matmul"] and self.chance(20):
            r = (C(6), 6)           # 2x3 / 3x2 matrices for transpose
        if force_len is not None:
            r = (C(force_len), force_len)
        if r is None:
            return []
        nt, n = r
        ops = [["call", [name], "<builtin>array", [nt], {}]]
        self.lbound1.discard(name)
        self.defined.pop(name, None)        # (a re-created array holds nothing readable until its loop has run)
        typ = ["arr", n]
        # full initialisation loop a[i] <- expr(i)
        lv = self.choice(self.LV)
        self.loop_env[lv] = (0, n)
        rhs = self.real_expr(1)
        del self.loop_env[lv]
        hi = nt if self.chance(60) else C(n)
        ops.append(["assign", name, [V(lv)], rhs, [[lv, C(0), hi]]])
        self.define(name, typ)
        self.features.add("array")
        return ops

    def op_triangular(self, depth):
        """A loop nest whose inner bound depends on the outer counter (creates a suitable array first
        when there is none)."""
        if not (self.p["arrays"] and self.p["loops"] and self.p["triangular"]):
            return []
        pre = []
        big = [a for a in self.names_of("arr_indexable") if self.defined[a][1] >= 4]
        if not big:
            pre = self.op_new_array(depth, force_len=self.choice([4, 6]))
            if not pre:
                return []
            big = [pre[0][1][0]]
        return pre + self.op_array_write(force=(self.choice(big), True))

    def op_array_write(self, force=None):
        arrs = [a for a in self.names_of("arr_indexable")]
        if not arrs:
            return []
        a = self.choice(arrs)
        n = self.defined[a][1]
        k = self.choice(["elem", "loop", "loop"] if self.p["loops"] else ["elem"])
        if force:
            a, k = force[0], "loop"
            n = self.defined[a][1]
        if k == "elem":
            idx = self.index_expr(n)
            rhs = self.real_expr(2)
            if self.chance(20):
                rhs = C(self.choice(REAL_CONSTS))      # a[k] <- 7: the subscript is the only thing read
                ivs = []
                for nm in self.names_of(INT):
                    v = self.ints[nm]
                    if 0 <= v < n:
                        ivs.append(V(nm))
                    if 0 <= v - 1 < n:
                        ivs.append(normal(["sum", V(nm), C(-1)]))
                if ivs:
                    idx = self.choice(ivs)
                    self.features.add("literal_to_variable_subscript")
                    return [["assign", a, [idx], rhs, []]]
            if rhs[0] == "call":
                # the builder turns "x <- f(...)" into a call statement, whose assignees must be plain variables
                rhs = normal(["sum", rhs, C(1)])
            if self.chance(30):
                rhs = normal(["sum", ["sub", V(a), [idx]], rhs])
                self.features.add("self_update")
            return [["assign", a, [idx], rhs, []]]
        # looped write; index is an injective function of the loop variables, the assignee is
        # read only at the element being written (no loop-carried dependence)
        self.features.add("loop")
        two = ((n >= 2 and self.chance(30)) or force) and len(self.LV) >= 2
        if two:
            # a[j*w + i], i in [0,w), j in [0,h), w*h <= n
            w = self.draw(st.integers(1, n))
            if self.p["triangular"] and n >= 4 and (force or self.chance(40)):
                w = 2 if n < 6 else self.choice([2, 3])
            h = n // w
            li, lj = self.LV[0], self.LV[1]
            self.loop_env[li] = (0, w)
            self.loop_env[lj] = (0, h)
            idx = normal(["sum", normal(["prod", V(lj), C(w)]), V(li)])
            loops = [[lj, C(0), self.bound_tree(h)], [li, C(0), self.bound_tree(w)]]
            if self.p["triangular"] and h <= w and h >= 2 and (force or self.chance(50)):
                # triangular nest: the inner bound depends on the outer counter (outer loop first)
                if self.chance(50):
                    loops = [[lj, C(0), self.bound_tree(h)], [li, C(0), normal(["sum", V(lj), C(1)])]]
                else:
                    loops = [[lj, C(0), self.bound_tree(h)], [li, V(lj), self.bound_tree(w)]]
                self.features.add("triangular")
            elif self.chance(50):
                loops.reverse()
            self.features.add("loop2")
        else:
            shift = self.choice([0, 0, 0, 1])
            lv, lo, hi, hdr = self.loop_for(n - shift)
            self.loop_env[lv] = (lo, hi)
            idx = V(lv) if shift == 0 else ["sum", V(lv), C(1)]
            loops = [hdr]
            if hi == lo:
                self.features.add("zero_trip")
        others = [b for b in arrs if b != a]
        rhs = self.real_expr(2)
        rhs = strip_reads_of(rhs, a)
        if self.p["calls"] and self.p["nested_calls"] and self.loop_env and self.chance(25):
            # a call argument that starts with the (integer) loop counter: the rewriting passes turn it
            # into an unsubscripted temporary inside the loop, whose kind must come out real
            lv0 = self.choice(sorted(self.loop_env))
            mixed = normal([self.choice(["sum", "sum", "prod"]), V(lv0), C(self.choice([0.5, 1.5, 0.25, 2.5]))])
            rhs = normal(["sum", rhs, ["call", "<func>g", [mixed], {}]])
            self.features.add("counter_first_arg")
        if self.p["guarded_partial"] and self.p["ifexpr"] and not two and others and self.chance(30):
            # a read that is only valid under its guard: b[i+1] if i+1 < len(b) else c   (stencil boundary)
            b = self.choice(others)
            nb = self.defined[b][1]
            nxt = ["sum", V(lv), C(1)]
            rhs = normal(["sum", rhs, ["if", ["cmp", nxt, "<", C(nb)], ["sub", V(b), [nxt]], self.real_leaf()]])
            self.features.add("guarded_partial")
            self.features.add("ifexpr")
        if self.chance(35):
            rhs = normal(["sum", ["sub", V(a), [idx]], rhs])
            self.features.add("self_update")
        self.loop_env.clear()
        return [["assign", a, [idx], rhs, loops]]

    def op_array_whole(self, force_k=None):
        arrs = self.names_of("arr")
        if not arrs or not (self.p["whole_array_ops"] or self.p["matmul_only"]):
            return []
        src = self.choice(arrs)
        n = self.defined[src][1]
        k = self.choice(["expr", "expr", "alias", "transpose", "matmul"])
        if force_k:
            k = force_k
        if self.p["matmul_only"] and not self.p["whole_array_ops"]:
            k = self.choice(["transpose", "matmul"])
        cands = [x for x in self.ARR_TEMPS if x not in self.types or self.types[x] == ["arr", n]]
        if not cands:
            return []
        name = self.choice(cands)
        if k == "alias" and not self.p["alias_arrays"]:
            k = "expr"
        if k in ("transpose", "matmul") and not self.p["matmul"]:
            k = "expr"
        if k == "expr":
            same = [a for a in arrs if self.defined[a][1] == n]
            rhs = self.arr_expr(n)
            if name not in self.defined or name in self.lbound1:
                self.lbound1.add(name)      # freshly (re)allocated by the assignment: lower bound 1 in Fortran
            self.define(name, ["arr", n])
            self.features.add("whole_array")
            return [["assign", name, None, rhs, []]]
        if k == "alias":
            if name == src:
                return []
            self.define(name, ["arr", n])
            self.features.add("alias")
            return [["assign", name, None, V(src), []]]
        if k == "transpose":
            pre = []
            if self.chance(75) and n != 6:
                # only a genuinely rectangular matrix (2x3 / 3x2) shows what a transposition does
                # make sure genuinely rectangular matrices get transposed: take (or first create) an
                # array whose length has a non-trivial divisor
                rect = [a for a in arrs if self.defined[a][1] == 6]
                if rect:
                    src = self.choice(rect)
                else:
                    pre = self.op_new_array(0, force_len=6)
                    if not pre:
                        return []
                    src = pre[0][1][0]
                n = self.defined[src][1]
                cands = [x for x in self.ARR_TEMPS if x not in self.types or self.types[x] == ["arr", n]]
                if not cands:
                    return pre
                name = self.choice(cands)
            divs = [c for c in range(1, n + 1) if n % c == 0]
            inner = [c for c in divs if c not in (1, n)]
            cols = self.choice(inner) if inner and self.chance(70) else self.choice(divs)
            self.define(name, ["arr", n])
            self.features.add("matmul")
            c_ = self.bcall("<builtin>transpose", [V(src), C(cols)])
            return pre + [["call", [name], c_[1], c_[2], c_[3]]] + self.observe_array(name, n, sure=True)
        # matmul: a is (ra x ca), b is (ca x cb); all shapes incl. inner (1xn . nx1), outer and matrix-vector
        combos = []
        for other in arrs:
            nb = self.defined[other][1]
            for ca in range(1, n + 1):
                if n % ca or nb % ca:
                    continue
                ra, cb = n // ca, nb // ca
                if ra * cb <= 6:
                    combos.append((other, ca, cb, ra * cb))
        if not combos:
            return []
        nonsquare = [c for c in combos if not (c[1] * c[1] == n and c[2] == c[1])]
        other, ca, cb, nres = self.choice(nonsquare) if nonsquare and self.chance(60) else self.choice(combos)
        cands = [x for x in self.ARR_TEMPS if x not in self.types or self.types[x] == ["arr", nres]]
        if not cands:
            return []
        name = self.choice(cands)
        self.define(name, ["arr", nres])
        self.lbound1.discard(name)
        self.features.add("matmul")
        if (ca, cb) != (n // ca, ca) or ca * ca != n:
            self.features.add("matmul_rect")
        c_ = self.bcall("<builtin>matmul", [V(src), V(other), C(ca), C(cb)])
        return [["call", [name], c_[1], c_[2], c_[3]]] + self.observe_array(name, nres)

    def observe_array(self, name, n, sure=False):
        """Make an element of a freshly computed array observable: add it to a persistent real
        (or a temporary one) right away.  sure: always, and an interior element when there is one."""
        if not sure and not self.chance(60):
            return []
        pers = [x for x in P_REAL if self.defined.get(x) == REAL]
        tgt = self.choice(pers) if pers else self.fresh_or_existing(REAL, self.REAL_TEMPS)
        if tgt is None:
            return []
        idx = C(self.draw(st.integers(1, n - 2)) if sure and n >= 3 else self.draw(st.integers(0, n - 1)))
        rhs = ["sub", V(name), [idx]]
        if tgt in self.defined:
            rhs = normal(["sum", V(tgt), rhs])
        self.define(tgt, REAL)
        return [["assign", tgt, None, rhs, []]]

    def op_call_stmt(self):
        if not self.p["calls"]:
            return []
        uv = self.names_of(UVEC)
        k = self.choice(["f", "f", "g", "two", "none", "zero", "split"])
        if k == "split":
            # two user-type results introduced by one statement
            if not (uv and self.p["multi_result"] and self.p["uvecs"] and self.p["split_calls"]):
                return []
            cands = [n for n in self.UVEC_TEMPS if self.types.get(n, UVEC) == UVEC]
            if len(cands) < 2:
                return []
            n1 = self.choice(cands)
            n2 = self.choice([c for c in cands if c != n1])
            src = V(self.choice(uv))
            self.define(n1, UVEC)
            self.define(n2, UVEC)
            self.features.add("split_call")
            ops = [["call", [n1, n2], "<func>split", [src] if not (self.p["kwargs"] and self.chance(30)) else [],
                    {} ]]
            if not ops[0][3]:
                ops[0][4] = {"y": src}
            if self.chance(60):
                # both results consumed by one statement (introduced together, last used together)
                tgt = self.fresh_or_existing(UVEC, self.UVEC_TEMPS, [n for n in P_UVEC if self.types.get(n) == UVEC])
                if tgt is not None:
                    ops.append(["assign", tgt, None, normal(["sum", V(n1), normal(["prod", self.coef(0), V(n2)])]), []])
                    self.define(tgt, UVEC)
            return ops
        if k == "zero" and self.p["zero_arg_calls"]:
            name = self.fresh_or_existing(REAL, self.REAL_TEMPS, [n for n in P_REAL if self.types.get(n) == REAL])
            if name is None:
                return []
            self.define(name, REAL)
            self.features.add("zero_arg_call")
            return [["call", [name], "<func>zero", [], {}]]
        if k == "f" and uv:
            pers = [n for n in P_UVEC if self.types.get(n) == UVEC]
            name = self.fresh_or_existing(UVEC, self.UVEC_TEMPS, pers)
            if name is None:
                return []
            t = self.real_expr(1)
            y = V(self.choice(uv)) if self.chance(60) else self.uvec_expr(1)
            if not self.p["cond_in_call_args"] and t[0] == "if":
                t = self.real_leaf()
            self.define(name, UVEC)
            if self.p["kwargs"] and self.chance(40):
                if self.chance(50):
                    return [["call", [name], "<func>f", [], {"t": t, "y": y}]]
                return [["call", [name], "<func>f", [t], {"y": y}]]
            return [["call", [name], "<func>f", [t, y], {}]]
        if k == "two" and self.p["multi_result"]:
            n1 = self.fresh_or_existing(REAL, self.REAL_TEMPS)
            n2 = self.fresh_or_existing(REAL, self.REAL_TEMPS)
            if n1 is None or n2 is None or n1 == n2:
                return []
            arg = self.real_expr(1)
            if not self.p["cond_in_call_args"] and arg[0] == "if":
                arg = self.real_leaf()
            self.define(n1, REAL)
            self.define(n2, REAL)
            self.features.add("multi_result")
            return [["call", [n1, n2], "<func>two", [arg], {}]]
        if k == "none" and self.p["zero_result"]:
            arg = self.real_expr(1)
            if not self.p["cond_in_call_args"] and arg[0] == "if":
                arg = self.real_leaf()
            self.features.add("zero_result")
            return [["call", [], "<func>note", [arg], {}]]
        name = self.fresh_or_existing(REAL, self.REAL_TEMPS, [n for n in P_REAL if self.types.get(n) == REAL])
        if name is None:
            return []
        arg = self.real_expr(1)
        if not self.p["cond_in_call_args"] and arg[0] == "if":
            arg = self.real_leaf()
        self.define(name, REAL)
        if self.p["kwargs"] and self.chance(40):
            return [["call", [name], "<func>g", [], {"x": arg}]]
        return [["call", [name], "<func>g", [arg], {}]]

    def op_yield(self):
        if not self.p["yields"]:
            return []
        if self.p["yield_call_free"]:
            # the Fortran target only isolates calls out of assignments; a call inside a yielded
            # expression or time makes it raise "bare Call encountered"
            saved = (self.p["nested_calls"], self.p["array_builtins"], self.p["calls"], self.p["isnan"])
            self.p["nested_calls"] = self.p["array_builtins"] = self.p["calls"] = self.p["isnan"] = False
            try:
                return self._op_yield()
            finally:
                self.p["nested_calls"], self.p["array_builtins"], self.p["calls"], self.p["isnan"] = saved
        return self._op_yield()

    def _op_yield(self):
        uv = self.names_of(UVEC)
        if self.p["yield_uvec_only"]:
            if not uv:
                return []
            expr = V(self.choice(uv)) if self.chance(60) else self.uvec_expr(1)
            time = self.choice([V("<t>"), normal(["sum", V("<t>"), V("<dt>")]), self.real_expr(1)])
            self.features.add("yield")
            return [["yield", expr, "y", time, self.choice(TIME_IDS)]]
        if uv and self.chance(70):
            expr = V(self.choice(uv)) if self.chance(60) else self.uvec_expr(1)
            comp = self.choice(["y", "u"])
        else:
            expr = self.real_expr(1)
            comp = "s"
        time = self.choice([V("<t>"), normal(["sum", V("<t>"), V("<dt>")]), self.real_expr(1)])
        self.features.add("yield")
        return [["yield", expr, comp, time, self.choice(TIME_IDS)]]

    def op_exit(self):
        if not self.p["exits"]:
            return []
        k = self.choice(["fail", "fail", "switch", "switch", "restart", "raise"])
        if k == "raise" and not self.p["raise_"]:
            k = "fail"
        self.features.add(k)
        if k == "fail":
            if self.p["time_advance"] and self.chance(30):
                # the step moves <t> (or <dt>) and then fails: what a failed step leaves behind counts for the
                # end-time test of run()
                self.features.add("advance_then_fail")
                return self.op_time_advance() + [["fail"]]
            return [["fail"]]
        if k == "switch":
            return [["switch", self.choice(self.phase_names)]]
        if k == "restart":
            return [["restart"]]
        return [["raise", self.choice(ERRORS), self.choice(["boom", "it failed badly", None])]]

    def op_fresh(self):
        """x = cb.fresh_var_name(prefix); x <- expr  (the name is only known at build time)"""
        prefix = self.choice(["temp", "temp", "tmp", "x", "<cond>", "acc", "temp_0", "x_0", "tmp_0", "acc_0"])
        self.features.add("fresh")
        if self.chance(35):
            # names requested ahead of their use (["reserve", prefix] makes no statement): a later request with a
            # prefix that looks like an earlier answer ("x" twice, then "x_0") must still get a new name
            self.features.add("fresh_reserved")
            base = self.choice(["temp", "x", "tmp", "acc"])
            seq = [base, base, base + "_0"] if self.chance(60) else [base + "_0", base, base]
            return [["reserve", pfx] for pfx in seq] + [["fresh", prefix, self.real_expr(1)]]
        return [["fresh", prefix, self.real_expr(1)]]

    def op_utemp_in_loop(self, depth):
        """A user-type temporary consumed inside a counted loop, optionally under a guard (memory
        management of the Fortran target: where is the temporary released?)."""
        uv = self.names_of(UVEC)
        arrs = self.names_of("arr_indexable")
        if not uv or not self.p["loops"]:
            return []
        ops = []
        if not arrs:
            ops += self.op_new_array(depth)
            arrs = self.names_of("arr_indexable")
            if not arrs:
                return ops
        cands = [n for n in self.UVEC_TEMPS if self.types.get(n, UVEC) == UVEC]
        if not cands:
            return ops
        tmp = self.choice(cands)
        ops.append(["assign", tmp, None, normal(["prod", self.coef(0), V(self.choice(uv))]), []])
        self.define(tmp, UVEC)
        a = self.choice(arrs)
        n = self.defined[a][1]
        f = self.choice(self.allowed(["<builtin>len", "<builtin>norm_1"]))
        lv = self.choice(self.LV)
        loop = ["assign", a, [V(lv)], normal(["sum", self.bcall(f, [V(tmp)]), V(lv)]), [[lv, C(0), C(n)]]]
        self.features.add("loop")
        self.features.add("utemp_in_loop")
        if self.p["ifs"] and depth < self.p["max_depth"] and self.chance(60):
            cond = self.bool_expr(1)
            self.features.add("if")
            ops.append(["if", cond, [loop], None])
        else:
            ops.append(loop)
        return ops

    def op_stencil(self, depth):
        """a[i] <- ... + (b[i+1] if i+1 < len(b) else c): a read that is only valid under its guard."""
        if not (self.p["guarded_partial"] and self.p["ifexpr"] and self.p["arrays"] and self.p["loops"]):
            return []
        ops = []
        for _ in range(2):
            if len(self.names_of("arr_indexable")) < 2:
                ops += self.op_new_array(depth)
        arrs = self.names_of("arr_indexable")
        if len(arrs) < 2:
            return ops
        a = self.choice(arrs)
        b = self.choice([x for x in arrs if x != a])
        na, nb = self.defined[a][1], self.defined[b][1]
        lv = self.choice(self.LV)
        self.loop_env[lv] = (0, na)
        base = strip_reads_of(self.real_expr(1), a)
        self.loop_env.clear()
        off = self.choice([1, 1, 2])
        nxt = ["sum", V(lv), C(off)]
        guard = ["cmp", nxt, "<", C(nb)]
        if self.chance(30):
            guard = ["cmp", C(nb), ">", nxt]
        rhs = normal(["sum", base, ["if", guard, ["sub", V(b), [nxt]], self.real_leaf()]])
        self.features.update(["guarded_partial", "ifexpr", "loop"])
        return ops + [["assign", a, [V(lv)], rhs, [[lv, C(0), self.bound_tree(na)]]]]

    def op_acc_loop(self):
        """x <- x + c under a counted loop whose counter is not mentioned (only the trip count matters)."""
        if not (self.p["loops"] and self.p["acc_loops"]):
            return []
        reals = [n for n in self.names_of(REAL) if n not in ("<t>", "<dt>")]
        if not reals:
            return []
        x = self.choice(reals)
        lv, lo, hi, hdr = self.loop_for(4)
        step = self.real_leaf()
        if step == V(x):
            step = C(2)
        self.features.add("loop")
        self.features.add("acc_loop")
        return [["assign", x, None, normal(["sum", V(x), step]), [hdr]]]

    def op_repeated_arg(self):
        """One statement in which the same argument expression, itself containing a call, occurs twice:
        x <- g(g(a) + 1) + g(g(a) + 1), or r1, r2 <- two(g(a)) next to a second g(a)."""
        if not (self.p["calls"] and self.p["nested_calls"] and self.p["recall"]):
            return []
        name = self.fresh_or_existing(REAL, self.REAL_TEMPS, [n for n in P_REAL if self.types.get(n) == REAL])
        if name is None:
            return []
        inner = ["call", "<func>g", [self.real_leaf()], {}]
        arg = normal(["sum", inner, C(self.choice([1, 2, 0.5]))]) if self.chance(70) else inner
        a, b = ["call", "<func>g", [arg], {}], ["call", "<func>g", [arg], {}]
        if self.p["kwargs"] and self.chance(30):
            b = ["call", "<func>g", [], {"x": arg}]
        rhs = normal([self.choice(["sum", "sum", "prod"]), a, b])
        self.define(name, REAL)
        self.features.add("repeated_arg")
        self.features.add("nested_call")
        return [["assign", name, None, rhs, []]]

    def op_guarded_loop_call(self, depth):
        """if v > c: a[i] <- a[i] + g(i - 2)  [loop]   with v mentioned by the guard only (and, in the
        adversarial name pool, named like a generated temporary)."""
        if not (self.p["calls"] and self.p["nested_calls"] and self.p["loops"] and self.p["arrays"] and self.p["ifs"]):
            return []
        if depth >= self.p["max_depth"]:
            return []
        reals = [n for n in self.names_of(REAL) if n not in ("<t>", "<dt>")]
        adv = [n for n in reals if n in ADVERSARIAL["real"]]
        ops = []
        if self.p["name_pool"] == "adversarial" and not adv:
            cand = [n for n in ADVERSARIAL["real"] if self.types.get(n, REAL) == REAL]
            if cand:
                v = "tmp" if "tmp" in cand and self.chance(50) else self.choice(cand)
                ops.append(["assign", v, None, self.real_leaf(), []])
                self.define(v, REAL)
                adv = [v]
        pool = adv or reals
        if not pool:
            return ops
        v = self.choice(pool)
        arrs = self.names_of("arr_indexable")
        if not arrs:
            ops += self.op_new_array(depth)
            arrs = self.names_of("arr_indexable")
            if not arrs:
                return ops
        a = self.choice(arrs)
        n = self.defined[a][1]
        lv = self.choice(self.LV)
        arg = normal(["sum", V(lv), C(self.choice([-2, -1, 0.5, 1.5]))])
        rhs = normal(["sum", ["sub", V(a), [V(lv)]], ["call", "<func>g", [arg], {}]])
        saved_depth = getattr(self, "cur_depth", 0)
        self.cur_depth = saved_depth + 1          # the loop below sits under a guard
        loop = ["assign", a, [V(lv)], rhs, [[lv, C(0), self.bound_tree(n)]]]
        self.cur_depth = saved_depth
        cond = ["cmp", V(v), self.choice([">", "<", ">=", "!="]), C(self.choice([0, 1, 2, -1]))]
        self.features.update(["loop", "if", "guarded_loop_call", "nested_call", "self_update"])
        return ops + [["if", cond, [loop], None]]

    def op_recall(self):
        """The same call, spelled identically, before and after one of its operands changes."""
        if not (self.p["calls"] and self.p["recall"]):
            return []
        reals = [n for n in self.names_of(REAL) if n not in ("<t>", "<dt>")]
        uv = self.names_of(UVEC)
        ops = []
        use_f = bool(uv) and self.chance(40)
        if use_f:
            wr = [n for n in uv if n in self.UVEC_TEMPS or n in P_UVEC]
            if not wr:
                return []
            x = self.choice(wr)
            arg = normal(["prod", C(self.choice([2, 0.5, 3])), V(x)])
            n1 = self.fresh_or_existing(UVEC, self.UVEC_TEMPS)
            n2 = self.fresh_or_existing(UVEC, self.UVEC_TEMPS)
            if n1 is None or n2 is None or x in (n1, n2):
                return []
            t = self.real_leaf()
            call = lambda n: ["call", [n], "<func>f", [t, arg], {}]
            upd = ["assign", x, None, normal(["sum", V(x), normal(["prod", self.coef(0), V(self.choice(uv))])]), []]
            typ = UVEC
        else:
            if not reals:
                return []
            x = self.choice(reals)
            arg = normal([self.choice(["sum", "prod"]), V(x), C(self.choice([2, 3, 0.5]))])
            n1 = self.fresh_or_existing(REAL, self.REAL_TEMPS)
            n2 = self.fresh_or_existing(REAL, self.REAL_TEMPS)
            if n1 is None or n2 is None or x in (n1, n2):
                return []
            call = lambda n: ["call", [n], "<func>g", [arg], {}]
            upd = ["assign", x, None, normal(["sum", V(x), C(self.choice([1, 2, -1, 0.5]))]), []]
            typ = REAL
        ops.append(call(n1))
        self.define(n1, typ)
        ops.append(upd)
        ops.append(call(n2))
        self.define(n2, typ)
        self.features.add("recall")
        return ops

    def op_time_advance(self):
        if self.p["dt_change"] and self.chance(25):
            # step-size control: the step size is a persistent variable like any other
            self.features.add("dt_change")
            if self.chance(50):
                return [["assign", "<dt>", None, normal(["prod", V("<dt>"), C(self.choice([0.5, 2, 0.25]))]), []]]
            return [["assign", "<dt>", None, ["quot", V("<dt>"), C(self.choice([2, 4]))], []]]
        return [["assign", "<t>", None, normal(["sum", V("<t>"), V("<dt>")]), []]]

    def op_if(self, depth, budget):
        if not self.p["ifs"] or depth >= self.p["max_depth"]:
            return []
        cond = self.bool_expr(self.draw(st.integers(0, 2)))
        if self.chance(15):
            # (A or B) and C  /  (A and B) or C  with plain comparisons: the printed form needs the parentheses
            cm = lambda: ["cmp", self.real_leaf(), self.choice(["<", "<=", ">", ">="]), self.real_leaf()]   # noqa: E731
            outer, inner = self.choice([("and", "or"), ("and", "or"), ("or", "and")])
            ch = [[inner, cm(), cm()], cm()]
            if self.chance(50):
                ch.reverse()
            cond = [outer] + ch
            self.features.add("mixed_logic_guard")
        before = dict(self.defined)
        then = self.block(depth + 1, self.draw(st.integers(1, max(1, budget))), in_if=True)
        after_then = self.defined
        els = None
        self.defined = dict(before)
        if self.chance(45):
            els = self.block(depth + 1, self.draw(st.integers(1, max(1, budget))), in_if=True)
            after_else = self.defined
            self.defined = {n: t for n, t in after_then.items() if after_else.get(n) == t}
            for n in list(self.defined):
                if n not in before and (n not in after_then or n not in after_else):
                    del self.defined[n]
            self.features.add("else")
        else:
            self.defined = dict(before)
        self.features.add("if")
        if depth + 1 >= 2:
            self.features.add("nested_if")
        return [["if", cond, then, els]]

    def block(self, depth, nops, in_if=False):
        self.cur_depth = depth       # > 0: the statements being generated are guarded
        try:
            return self._block(depth, nops, in_if)
        finally:
            self.cur_depth = depth - 1 if depth > 0 else 0

    def _block(self, depth, nops, in_if=False):
        ops = []
        for _ in range(nops):
            kinds = ["real"] * 5 + ["uvec"] * 3 + ["flag", "int", "int", "newarr", "arrwrite", "arrwrite", "arrwhole",
                                                 "call", "call", "yield", "yield", "if", "if", "time"]
            if in_if:
                kinds += ["exit", "exit"]
            elif self.p["dead_code"]:
                kinds += ["exit"] if self.chance(15) else []
            kinds += list(self.p["extra_kinds"])
            if self.p["fresh_names"]:
                kinds += ["fresh"]
            if self.p["complex_vars"]:
                kinds += ["cplx", "cplx", "cplx", "fromcplx", "fromcplx"]
            # the dedicated operations share two slots, so that adding one does not thin out the rest
            special = []
            if self.p["recall"] and self.p["calls"]:
                special += ["recall"]
                if self.p["nested_calls"]:
                    special += ["repeated_arg", "guarded_loop_call"]
            if self.p["triangular"] and self.p["arrays"] and self.p["loops"]:
                special += ["tri"]
            if self.p["acc_loops"] and self.p["loops"]:
                special += ["accloop"]
            if self.p["guarded_partial"] and self.p["ifexpr"] and self.p["arrays"] and self.p["loops"]:
                special += ["stencil"]
            if special:
                kinds += ["special", "special"]
            k = self.choice(kinds)
            if k == "special":
                k = self.choice(special)
            if k == "repeated_arg":
                new = self.op_repeated_arg()
            elif k == "guarded_loop_call":
                new = self.op_guarded_loop_call(depth)
            elif k == "accloop":
                new = self.op_acc_loop()
            elif k == "stencil":
                new = self.op_stencil(depth)
            elif k == "recall":
                new = self.op_recall()
            elif k == "tri":
                new = self.op_triangular(depth)
            elif k == "utemploop":
                new = self.op_utemp_in_loop(depth)
            elif k == "fresh":
                new = self.op_fresh()
            elif k == "cplx":
                new = self.op_assign_cplx()
            elif k == "fromcplx":
                r_ = self.draw(st.integers(0, 9))
                new = self.op_real_from_cplx() if r_ < 4 else (self.op_assign_carr() if r_ < 7 else self.op_carr_builtin())
            elif k == "real":
                new = self.op_assign_real()
            elif k == "uvec":
                new = self.op_assign_uvec() if self.p["uvecs"] else []
            elif k == "flag":
                new = self.op_assign_flag() if self.p["flags"] else []
            elif k == "int":
                new = self.op_assign_int(depth)
            elif k == "newarr":
                new = self.op_new_array(depth)
            elif k == "arrwrite":
                new = self.op_array_write() if self.p["arrays"] else []
            elif k == "arrwhole":
                new = self.op_array_whole() if self.p["arrays"] else []
            elif k in ("transpose", "matmul"):
                new = self.op_array_whole(force_k=k) if self.p["arrays"] and self.p["matmul"] else []
            elif k == "call":
                new = self.op_call_stmt()
            elif k == "yield":
                new = self.op_yield()
            elif k == "if":
                new = self.op_if(depth, 3)
            elif k == "time":
                new = self.op_time_advance() if self.p["time_advance"] else []
            else:
                new = self.op_exit()
            ops.extend(new)
        return ops


def integer_typed(t, loop_vars):
    """Would the Fortran printer give this expression INTEGER type?  (Only loop counters are
    integers; every constant is printed as a double, except the exponent of a power.)"""
    k = t[0]
    if k == "var":
        return t[1] in loop_vars
    if k in ("sum", "prod"):
        return all(integer_typed(c, loop_vars) for c in t[1:])
    if k == "pow":
        return integer_typed(t[1], loop_vars) and t[2][0] == "const" and isinstance(t[2][1], int)
    if k in ("min", "max"):
        return all(integer_typed(c, loop_vars) for c in t[1:])
    if k == "if":
        return integer_typed(t[2], loop_vars) and integer_typed(t[3], loop_vars)
    return False


def strip_reads_of(tree, arr):
    """Replace subscripts of / calls on array `arr` by a constant (no loop-carried dependence)."""
    if tree[0] == "sub" and tree[1] == ["var", arr]:
        return ["const", 1]
    if tree[0] == "call" and any(a == ["var", arr] for a in tree[2]):
        return ["const", 2]
    from vlib.tree import children, rebuild
    return rebuild(tree, [strip_reads_of(c, arr) for c in children(tree)])


def normal(t):
    """Flatten-normal form of sums and products (what pymbolic.flatten would produce):
    no sum directly in a sum, no product directly in a product, no 0 term, no 1 factor."""
    k = t[0]
    if k == "quot":
        if t[1] == ["const", 0]:
            return ["const", 0]
        return t
    if k not in ("sum", "prod"):
        return t
    ch = []
    for c in t[1:]:
        c = normal(c)
        if c[0] == k:
            ch.extend(c[1:])
        else:
            ch.append(c)
    if k == "prod" and any(c[0] == "const" and c[1] == 0 and not isinstance(c[1], bool) for c in ch):
        return ["const", 0]          # flatten: 0*x -> 0
    unit = 0 if k == "sum" else 1
    ch = [c for c in ch if not (c[0] == "const" and c[1] == unit and not isinstance(c[1], bool))]
    if not ch:
        return ["const", unit]
    if len(ch) == 1:
        return ch[0]
    return [k] + ch


@st.composite
def methods(draw, profile=None):
    g = Gen(draw, profile)
    p = g.p
    nph = draw(st.integers(1, p["max_phases"]))
    names = ["p%d" % i for i in range(nph)] if draw(st.booleans()) else ["init", "main", "extra"][:nph]
    if p["force_phases"]:
        names = [x[0] for x in p["force_phases"]]
        nph = len(names)
    g.phase_names = names
    # keyword arguments written in reverse name order (f(y=.., t=..)) in the whole method?
    kw_reverse = bool(p["kwargs"] and p["kw_reverse"] and draw(st.integers(0, 99)) < 50)
    # how the builder is addressed: pymbolic objects, strings, three-argument if_ (see backends.emit_ops)
    surface = draw(st.sampled_from(["expr", "expr", "expr", "str", "str", "if3", "if3str"])) if p["surfaces"] else "expr"
    # persistent variables, fixed up front
    state = {}
    pers = {}
    if p["uvecs"]:
        for n in P_UVEC:
            if n.startswith("<state>") and (n == "<state>y" or g.chance(40)):
                pers[n] = UVEC
                state[n[7:]] = [draw(st.sampled_from([1, 2, -1, 0.5, 3, -2, 0])) for _ in range(g.ulen)]
        if g.chance(40):
            pers["<p>yold"] = UVEC
    for n in P_REAL:
        if g.chance(55):
            pers[n] = REAL
            if n.startswith("<state>"):
                state[n[7:]] = draw(st.sampled_from([0, 1, 2, 0.5, -1, 3, 1.5]))
    if p["int_vars"] and g.chance(40):
        pers["<p>n"] = INT
    if p["arrays"] and p["persistent_arrays"] and g.chance(30):
        pers["<p>hist"] = "parr"
    if p["complex_vars"] and g.chance(50):
        pers["<p>cz"] = CPLX
    # prologue of the initial phase assigns every <p> variable unconditionally
    prologue = []
    for n, t in pers.items():
        g.types[n] = t if t != "parr" else None
    for n in list(state):
        g.defined["<state>" + n] = pers["<state>" + n]
    g.defined["<t>"] = REAL
    g.defined["<dt>"] = REAL
    g.types["<t>"] = REAL
    g.types["<dt>"] = REAL
    for n, t in pers.items():
        if n.startswith("<state>"):
            continue
        if t == REAL:
            prologue.append(["assign", n, None, C(draw(st.sampled_from([0, 1, 2, 0.5, -1]))), []])
            g.define(n, REAL)
        elif t == INT:
            v = draw(st.integers(1, 4))
            prologue.append(["assign", n, None, C(v), []])
            g.define(n, INT)
            g.ints[n] = v
        elif t == UVEC:
            prologue.append(["assign", n, None, normal(["prod", C(2), V("<state>y")]), []])
            g.define(n, UVEC)
        elif t == CPLX:
            prologue.append(["assign", n, None, C(["complex", 1, 1]), []])
            g.define(n, CPLX)
        elif t == "parr":
            r = g.int_expr(1, 4)
            nt, nv = r
            prologue.append(["call", [n], "<builtin>array", [nt], {}])
            prologue.append(["assign", n, [V("i")], normal(["sum", V("i"), C(1)]), [["i", C(0), nt]]])
            g.define(n, ["arr", nv])
    persistent_defined = dict(g.defined)
    phases = []
    persistent_types = dict(g.types)
    for i, name in enumerate(names):
        g.defined = dict(persistent_defined)
        # temporaries die with the step, so a name may be re-used with another type in another phase
        g.types = dict(persistent_types)
        g.ints = {n: v for n, v in g.ints.items() if n in persistent_types}
        g.lbound1 = set()
        body = list(prologue) if i == 0 else []
        body += g.block(0, draw(st.integers(1, p["max_ops"])))
        if p["yields"] and g.chance(50):
            body += g.op_yield()
        if g.chance(60) and p["time_advance"]:
            body += g.op_time_advance()
        nxt = draw(st.sampled_from(names))
        if nph > 1 and draw(st.integers(0, 9)) < 6:
            nxt = names[(i + 1) % nph]          # mostly a cycle through all phases, so that later phases are reached
        if p["force_phases"]:
            nxt = p["force_phases"][i][1]
        phases.append({"name": name, "next": nxt, "body": body, "kw_reverse": kw_reverse, "surface": surface})
    if p["assign_all_state"]:
        # kind inference can only type a persistent variable that is assigned somewhere
        extra = []
        for n in sorted(state):
            full = "<state>" + n
            if pers[full] == UVEC:
                extra.append(["call", [full], "<func>f", [V("<t>"), V(full)], {}])
            else:
                extra.append(["assign", full, None, normal(["sum", V(full), V("<dt>")]), []])
        phases[-1]["body"] = phases[-1]["body"] + extra
    return {"phases": phases, "initial": names[0], "state": state,
            "t0": draw(st.sampled_from([0, 0, 1, 0.5, -1, -0.5, -2])), "dt0": draw(st.sampled_from([1, 0.5, 0.25, 2])),
            "ulen": g.ulen, "features": sorted(g.features | ({"kw_reverse"} if kw_reverse else set()) | {"surface_" + surface}),
            "kw_reverse": kw_reverse, "surface": surface,
            "reuse_ids": bool(p["reuse_ids"] and nph > 1 and draw(st.integers(0, 99)) < 30)}


# ---------------------------------------------------------------- structure helpers

def walk_ops(body):
    for op in body:
        yield op
        if op[0] == "if":
            yield from walk_ops(op[2])
            if op[3]:
                yield from walk_ops(op[3])


def op_trees(op):
    """All expression trees of an op (not descending into blocks)."""
    k = op[0]
    if k == "assign":
        out = [op[3]] + (list(op[2]) if op[2] else [])
        for l in op[4]:
            out += [l[1], l[2]]
        return out
    if k == "call":
        return list(op[3]) + [op[4][n] for n in sorted(op[4])]
    if k == "if":
        return [op[1]]
    if k == "yield":
        return [op[1], op[3]]
    if k == "fresh":
        return [op[2]]
    return []


def count_ops(method):
    return sum(1 for ph in method["phases"] for _ in walk_ops(ph["body"]))


def method_features(method):
    from vlib.tree import kinds
    f = set(method.get("features", []))
    for ph in method["phases"]:
        for op in walk_ops(ph["body"]):
            f.add("op_" + op[0])
            for t in op_trees(op):
                f |= {"x_" + k for k in kinds(t)}
    if len(method["phases"]) > 1:
        f.add("multi_phase")
    return f


def bind_sites(method):
    """Give every user-function call site its own function name ('<func>f__3').
    Returns (new method, [site names])."""
    import copy
    from vlib.tree import children, rebuild
    m = copy.deepcopy(method)
    sites = []

    def ren(name):
        if name.startswith("<func>"):
            s = "%s__%d" % (name, len(sites))
            sites.append(s)
            return s
        return name

    def tr(t):
        if t[0] == "call":
            t = ["call", ren(t[1]), t[2], t[3] if len(t) > 3 else {}]
        return rebuild(t, [tr(c) for c in children(t)])

    def walk(ops):
        for op in ops:
            k = op[0]
            if k == "assign":
                op[3] = tr(op[3])
                if op[2]:
                    op[2] = [tr(x) for x in op[2]]
                op[4] = [[l[0], tr(l[1]), tr(l[2])] for l in op[4]]
            elif k == "call":
                op[3] = [tr(a) for a in op[3]]
                op[4] = {n: tr(v) for n, v in op[4].items()}
                op[2] = ren(op[2])
            elif k == "if":
                op[1] = tr(op[1])
                walk(op[2])
                if op[3]:
                    walk(op[3])
            elif k == "yield":
                op[1] = tr(op[1])
                op[3] = tr(op[3])
    for ph in m["phases"]:
        walk(ph["body"])
    return m, sites

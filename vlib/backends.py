"""Drive dagrt with methods-as-data: CodeBuilder -> DAGCode, interpreter, generated Python."""
from fractions import Fraction

from vlib import tree as T
from vlib.refexec import is_persistent, make_python_functions


class MyError(Exception):
    pass


class OtherError(Exception):
    pass


ERROR_CLASSES = {"MyError": MyError, "OtherError": OtherError}


# ---------------------------------------------------------------- building

def _as_text(e):
    """str(e) if dagrt's own parser reads it back as the same expression, else None (the known holes of the
    printer - see C19 - and anything a changed parser gets wrong fall back to passing the expression)."""
    from dagrt.expression import parse
    try:
        s = str(e)
        return s if parse(s) == e else None
    except Exception:
        return None


def emit_ops(cb, ops, fresh=None, surface="expr"):
    """fresh: list receiving (prefix, name returned by cb.fresh_var_name) in call order.
    surface: how the builder is addressed - "expr" (pymbolic objects), "str" (strings wherever they read back
    identically), "if3" / "if3str" (three-argument form of if_ for comparisons, operands as objects / strings)."""
    from pymbolic import var
    from pymbolic.primitives import Comparison

    def S(e):
        if surface in ("str", "if3str"):
            t = _as_text(e)
            if t is not None:
                return t
        return e

    for op in ops:
        k = op[0]
        if k == "reserve":
            name = cb.fresh_var_name(op[1])
            if fresh is not None:
                fresh.append((op[1], name))
        elif k == "fresh":
            name = cb.fresh_var_name(op[1])
            if fresh is not None:
                fresh.append((op[1], name))
            cb.assign(var(name), T.to_pymbolic(op[2]))
        elif k == "assign":
            _, name, sub, rhs, loops = op
            lhs = var(name)
            if sub:
                lhs = lhs[T.to_pymbolic(sub[0])]
            cb.assign(S(lhs), S(T.to_pymbolic(rhs)),
                      loops=[(l[0], S(T.to_pymbolic(l[1])), S(T.to_pymbolic(l[2]))) for l in loops])
        elif k == "call":
            _, assignees, fname, args, kw = op
            expr = T.to_pymbolic(["call", fname, args, kw])
            cb.assign(tuple(S(var(a)) for a in assignees), S(expr))
        elif k == "if":
            cond = T.to_pymbolic(op[1])
            if surface in ("if3", "if3str") and isinstance(cond, Comparison):
                cm = cb.if_(S(cond.left), cond.operator, S(cond.right))
            else:
                cm = cb.if_(S(cond))
            with cm:
                emit_ops(cb, op[2], fresh, surface)
            if op[3]:
                with cb.else_():
                    emit_ops(cb, op[3], fresh, surface)
        elif k == "yield":
            cb.yield_state(S(T.to_pymbolic(op[1])), op[2], S(T.to_pymbolic(op[3])), op[4])
        elif k == "fail":
            cb.fail_step()
        elif k == "switch":
            cb.switch_phase(op[1])
        elif k == "restart":
            cb.restart_step()
        elif k == "raise":
            cb.raise_(ERROR_CLASSES[op[1]], op[2])
        else:
            raise ValueError(op)


def build_phase(ph, as_list=True, fresh=None):
    """Returns (builder, ExecutionPhase)."""
    from dagrt.language import CodeBuilder, ExecutionPhase
    T.set_kw_order(ph)
    with CodeBuilder(name=ph["name"]) as cb:
        emit_ops(cb, ph["body"], fresh, ph.get("surface", "expr"))
    if as_list:
        phase = ExecutionPhase(name=ph["name"], next_phase=ph["next"], statements=list(cb.statements))
    else:
        phase = cb.as_execution_phase(ph["next"])
    return cb, phase


def build_dag(method, as_list=True):
    from dagrt.language import DAGCode, ExecutionPhase
    phases = {}
    for ph in method["phases"]:
        _, phases[ph["name"]] = build_phase(ph, as_list)
    if method.get("reuse_ids"):
        # statement ids only have to be unique within a phase: give every phase the same ids s_0, s_1, ...
        # (the builder's own ids carry the phase name)
        for name, phase in list(phases.items()):
            old = sorted((s.id for s in phase.statements), key=lambda i: int(i.rsplit("_", 1)[1]))
            ren = {o: "s_%d" % k for k, o in enumerate(old)}
            stmts = [s.copy(id=ren[s.id], depends_on=frozenset(ren[d] for d in s.depends_on)) for s in phase.statements]
            phases[name] = ExecutionPhase(name=name, next_phase=phase.next_phase,
                                          statements=stmts if as_list else frozenset(stmts))
    return DAGCode(phases, method["initial"])


# ---------------------------------------------------------------- value normalisation

def norm(v):
    """Backend value -> exact comparable form (same shape as refexec.snapshot_value)."""
    import numpy as np
    if v is None:
        return None
    if isinstance(v, (bool, np.bool_)):
        return bool(v)
    if isinstance(v, (int, np.integer)):
        return Fraction(int(v))
    if isinstance(v, (float, np.floating)):
        f = float(v)
        if f != f:
            return "nan"
        if f in (float("inf"), float("-inf")):
            return "inf" if f > 0 else "-inf"
        return Fraction(f)
    if isinstance(v, Fraction):
        return v
    if isinstance(v, np.ndarray):
        if v.ndim == 0:
            return norm(v.item())
        return ("vec", tuple(norm(x) for x in v.tolist()))
    if isinstance(v, (list, tuple)):
        return ("vec", tuple(norm(x) for x in v))
    if isinstance(v, (complex, np.complexfloating)):
        return ("complex", norm(v.real), norm(v.imag))
    return ("other", repr(v))


def initial_context(method):
    import numpy as np
    ctx = {}
    for n, v in method["state"].items():
        ctx[n] = np.array(v, dtype=np.float64) if isinstance(v, list) else v
    return ctx


def norm_event(evt):
    name = type(evt).__name__
    if name == "StateComputed":
        return ("state", norm(evt.t), evt.time_id, evt.component_id, norm(evt.state_component))
    if name == "StepCompleted":
        return ("completed", norm(evt[0]), norm(evt[1]), evt[2], evt[3])   # positionally: dt, t, current, next
    if name == "StepFailed":
        return ("failed", norm(evt.t))
    return ("unknown-event", repr(evt))


def drive(stepper, plan, snapshot, raised_name):
    """Consume stepper.run(...) the way refexec.run_reference cuts it.  Returns (history, status)."""
    hist = []
    cap = plan.get("max_events", 60)
    kwargs = {}
    if plan.get("t_end") is not None:
        kwargs["t_end"] = plan["t_end"]
    if plan.get("max_steps") is not None:
        kwargs["max_steps"] = plan["max_steps"]
    gen = stepper.run(**kwargs)
    cur = {"events": []}
    n_events = 0
    status = "done"
    while True:
        try:
            evt = next(gen)
        except StopIteration:
            break
        except Exception as e:
            cur["events"].append(("raised", raised_name(e)))
            cur["outcome"] = "raised"
            cur["state"] = snapshot()
            cur["next_phase"] = stepper.next_phase
            hist.append(cur)
            status = "raised"
            cur = {"events": []}
            break
        ne = norm_event(evt)
        cur["events"].append(ne)
        if ne[0] in ("completed", "failed"):
            cur["outcome"] = ne[0]
            cur["state"] = snapshot()
            cur["next_phase"] = stepper.next_phase
            n_events += len(cur["events"])
            hist.append(cur)
            cur = {"events": []}
            if n_events >= cap:
                # same cut rule as the reference: only before starting another step, and only
                # if the run would not have ended by itself
                status = "cut"
                gen.close()
                break
    if cur["events"]:
        cur["outcome"] = "partial"
        hist.append(cur)
    return hist, status


def run_interpreter(dag, method, plan, functions=None):
    from dagrt.exec_numpy import NumpyInterpreter
    fm = functions if functions is not None else make_python_functions()
    interp = NumpyInterpreter(dag, fm)
    interp.set_up(t_start=method["t0"], dt_start=method["dt0"], context=initial_context(method))

    def snapshot():
        return {n: norm(v) for n, v in interp.context.items() if is_persistent(n)}

    def raised_name(e):
        return type(e).__name__

    hist, status = drive(interp, plan, snapshot, raised_name)
    return hist, status, interp


def persistent_names(method):
    """Persistent variables the program mentions (generated set_up only stores those)."""
    from vlib.progen import op_trees, walk_ops
    names = {"<t>", "<dt>"}
    for ph in method["phases"]:
        for op in walk_ops(ph["body"]):
            if op[0] == "assign":
                names.add(op[1])
            if op[0] == "call":
                names.update(op[1])
            for t in op_trees(op):
                names |= T.variables(t)
    return {n for n in names if is_persistent(n)}


def restrict(hist, names):
    for rec in hist:
        if "state" in rec:
            rec["state"] = {n: v for n, v in rec["state"].items() if n in names}
    return hist


def run_generated(dag, method, plan, functions=None):
    from dagrt.codegen import PythonCodeGenerator
    fm = functions if functions is not None else make_python_functions()
    cg = PythonCodeGenerator(class_name="Method")
    cls = cg.get_class(dag)
    obj = cls(fm)
    # a second stepper of the same generated class, made afterwards with functions of its own that must never be
    # called by the first: instances of one class do not share what they were constructed with
    def _decoy(*a, **k):
        raise AssertionError("a function given to another stepper instance was called")
    decoy = cls({n: _decoy for n in fm})
    decoy.set_up(t_start=method["t0"], dt_start=method["dt0"], context=initial_context(method))
    obj.set_up(t_start=method["t0"], dt_start=method["dt0"], context=initial_context(method))
    nm = cg._name_manager
    pnames = sorted(persistent_names(method))
    attrs = {}
    for n in pnames:
        a = nm[n]
        assert a.startswith("self."), a
        attrs[n] = a[5:]

    def snapshot():
        out = {}
        for n, a in attrs.items():
            if hasattr(obj, a):
                v = getattr(obj, a)
                if v is None and n.startswith("<state>") and n[7:] not in method["state"]:
                    continue
                out[n] = norm(v)
        return out

    def raised_name(e):
        if type(e).__name__ == "StepError":
            return e.condition
        return type(e).__name__

    hist, status = drive(obj, plan, snapshot, raised_name)
    return hist, status, obj


def ref_history_comparable(hist):
    """refexec history -> same shape as drive() histories."""
    out = []
    for rec in hist:
        evs = []
        for e in rec["events"]:
            evs.append(e)
        out.append({"events": evs, "outcome": rec["outcome"], "state": dict(rec["state"]),
                    "next_phase": rec["next_phase"]})
    return out


def first_difference(ha, hb, na, nb):
    """None or a description of the first difference between two histories."""
    for i, (a, b) in enumerate(zip(ha, hb)):
        if a["events"] != b["events"]:
            for j, (x, y) in enumerate(zip(a["events"], b["events"])):
                if x != y:
                    return "step %d event %d: %s has %s, %s has %s" % (i, j, na, show(x), nb, show(y))
            return "step %d: %s has %d events, %s has %d (%s | %s)" % (
                i, na, len(a["events"]), nb, len(b["events"]), show(a["events"][-1:]), show(b["events"][-1:]))
        if a.get("outcome") == "partial" or b.get("outcome") == "partial":
            continue
        if a["next_phase"] != b["next_phase"]:
            return "after step %d: next phase %s in %s, %s in %s" % (i, a["next_phase"], na, b["next_phase"], nb)
        sa, sb = a["state"], b["state"]
        for n in sorted(set(sa) | set(sb)):
            if n not in sa or n not in sb:
                # a persistent variable one side has not created (yet)
                if sa.get(n) is None and sb.get(n) is None:
                    continue
                return "after step %d: persistent %s is %s in %s, %s in %s" % (
                    i, n, show(sa.get(n, "<absent>")), na, show(sb.get(n, "<absent>")), nb)
            if sa[n] != sb[n]:
                return "after step %d: persistent %s is %s in %s, %s in %s" % (
                    i, n, show(sa[n]), na, show(sb[n]), nb)
    if len(ha) != len(hb):
        return "%s ran %d steps, %s ran %d" % (na, len(ha), nb, len(hb))
    return None


def show(x):
    if isinstance(x, Fraction):
        return str(float(x)) if x.denominator != 1 else str(x.numerator)
    if isinstance(x, tuple):
        return "(" + ", ".join(show(y) for y in x) + ")"
    if isinstance(x, list):
        return "[" + ", ".join(show(y) for y in x) + "]"
    return str(x)

"""Linear extensions of a dependency graph and an independent statement-level executor."""
import random
from fractions import Fraction

from vlib import tree as T
from vlib.refexec import (CheckedEvaluator, RefError, Vec, check_exact, is_persistent, ref_call,
                          ref_subscript, snapshot_value)


# ---------------------------------------------------------------- linear extensions

def all_extensions(ids, deps, cap):
    """All linear extensions (as lists of ids), or None if there are more than cap."""
    ids = list(ids)
    out = []
    indeg = {i: len([d for d in deps[i] if d in deps]) for i in ids}
    succ = {i: [] for i in ids}
    for i in ids:
        for d in deps[i]:
            if d in succ:
                succ[d].append(i)
    order = []

    def rec():
        if len(order) == len(ids):
            out.append(list(order))
            return len(out) <= cap
        for i in ids:
            if indeg[i] == 0:
                indeg[i] = -1
                for j in succ[i]:
                    indeg[j] -= 1
                order.append(i)
                ok = rec()
                order.pop()
                for j in succ[i]:
                    indeg[j] += 1
                indeg[i] = 0
                if not ok:
                    return False
        return True

    if not rec():
        return None
    return out


def kahn(ids, deps, pick):
    """One linear extension; pick(ready list) chooses the next id."""
    ids = list(ids)
    indeg = {i: len([d for d in deps[i] if d in deps]) for i in ids}
    succ = {i: [] for i in ids}
    for i in ids:
        for d in deps[i]:
            if d in succ:
                succ[d].append(i)
    ready = [i for i in ids if indeg[i] == 0]
    out = []
    while ready:
        i = pick(ready)
        ready.remove(i)
        out.append(i)
        for j in succ[i]:
            indeg[j] -= 1
            if indeg[j] == 0:
                ready.append(j)
    if len(out) != len(ids):
        raise ValueError("dependency cycle")
    return out


def dfs_order(ids, deps, roots, dep_key):
    """Depth-first-from-sinks order (what interpreter and code generators do)."""
    out = []
    seen = set()

    def visit(i):
        if i in seen:
            return
        seen.add(i)
        for d in sorted(deps[i], key=dep_key):
            visit(d)
        out.append(i)
    for r in roots:
        visit(r)
    return out


def sample_extensions(ids, deps, n, seed):
    ids = list(ids)
    pos = {i: k for k, i in enumerate(ids)}
    rng = random.Random(seed)
    exts = []
    exts.append(kahn(ids, deps, lambda ready: min(ready, key=pos.get)))        # program order
    exts.append(kahn(ids, deps, lambda ready: max(ready, key=pos.get)))        # latest-first adversary
    sinks = [i for i in ids if not any(i in deps[j] for j in ids)]
    exts.append(dfs_order(ids, deps, sorted(sinks), lambda d: d))
    exts.append(dfs_order(ids, deps, sorted(sinks, reverse=True), lambda d: -pos[d]))
    for _ in range(n):
        prio = {i: rng.random() for i in ids}
        exts.append(kahn(ids, deps, lambda ready: min(ready, key=prio.get)))
    for _ in range(max(2, n // 8)):
        rs = list(sinks)
        rng.shuffle(rs)
        prio = {i: rng.random() for i in ids}
        exts.append(dfs_order(ids, deps, rs, prio.get))
    uniq = []
    seen = set()
    for e in exts:
        k = tuple(e)
        if k not in seen:
            seen.add(k)
            uniq.append(e)
    return uniq


# ---------------------------------------------------------------- statement-level execution

class StepExit(Exception):
    def __init__(self, kind, arg=None):
        self.kind, self.arg = kind, arg


class StatementExecutor:
    """Executes dagrt statement objects (Assign, AssignFunctionCall, YieldState, FailStep,
    SwitchPhase, Raise, Nop) on an exact environment with the tree evaluator."""

    def __init__(self, env, calls=None):
        self.env = env
        self.calls = calls if calls is not None else []
        self.ev = CheckedEvaluator(env, call=ref_call(self.calls), subscript=ref_subscript)
        self.events = []

    def guard(self, stmt):
        c = getattr(stmt, "condition", True)
        if c is True:
            return True
        if c is False:
            return False
        return bool(self.ev(T.from_pymbolic(c)))

    def run(self, stmt):
        """Evaluate the guard, then perform the statement.  Raises StepExit."""
        if not self.guard(stmt):
            return False
        self.perform(stmt)
        return True

    def perform(self, stmt):
        k = type(stmt).__name__
        ev = self.ev
        if k == "Assign":
            rhs = T.from_pymbolic(stmt.rhs)
            sub = stmt.assignee_subscript
            subt = [T.from_pymbolic(s) for s in sub] if sub else None
            loops = [(i, T.from_pymbolic(lo), T.from_pymbolic(hi)) for i, lo, hi in stmt.loops]
            self._loops(stmt.assignee, subt, rhs, loops)
        elif k == "AssignFunctionCall":
            args = [ev(T.from_pymbolic(p)) for p in stmt.parameters]
            kw = {n: ev(T.from_pymbolic(v)) for n, v in sorted(stmt.kw_parameters.items())}
            res = ev.call(stmt.function_id, args, kw)
            check_exact(res)
            if len(stmt.assignees) == 1:
                self.env[stmt.assignees[0]] = res
            elif len(stmt.assignees) > 1:
                if len(res) != len(stmt.assignees):
                    raise RefError("result count")
                for n, r in zip(stmt.assignees, res):
                    self.env[n] = r
        elif k == "AssignImplicit":
            # an implicit solve is an external computation: its results are a deterministic function of the solver id,
            # the shape of the equations (unknowns as place-holders) and the *values* of everything they mention, so
            # that renaming a variable does not change it while reading another value or storing elsewhere does
            import hashlib
            import json
            from fractions import Fraction
            unknowns = {n: k_ for k_, n in enumerate(stmt.solve_variables)}

            def shape(t):
                if t[0] == "var":
                    if t[1] in unknowns:
                        return ["unknown", unknowns[t[1]]]
                    if t[1].startswith(("<func>", "<builtin>")):
                        return t
                    return ["value", repr(snapshot_value(ev(t)))]
                return T.rebuild(t, [shape(c) for c in T.children(t)])
            key = [str(stmt.solver_id), [shape(T.from_pymbolic(e)) for e in stmt.expressions],
                   sorted((n, repr(snapshot_value(ev(T.from_pymbolic(v))))) for n, v in stmt.other_params.items())]
            self.calls.append(("<implicit>", (json.dumps(key, sort_keys=True, default=repr),), ()))
            h = hashlib.sha256(json.dumps(key, sort_keys=True, default=repr).encode()).digest()
            for k_, n in enumerate(stmt.assignees):
                self.env[n] = Fraction(h[k_] % 16 - 8, 4)
        elif k == "YieldState":
            val = ev(T.from_pymbolic(stmt.expression))
            t = ev(T.from_pymbolic(stmt.time))
            self.events.append(("state", t, stmt.time_id, stmt.component_id, snapshot_value(val)))
        elif k == "FailStep":
            raise StepExit("fail")
        elif k == "SwitchPhase":
            raise StepExit("switch", stmt.next_phase)
        elif k == "Raise":
            raise StepExit("raise", stmt.error_condition.__name__)
        elif k == "Nop":
            pass
        else:
            raise RefError("cannot execute %s" % k)

    def _loops(self, name, sub, rhs, loops):
        if not loops:
            val = self.ev(rhs)
            if sub:
                idx = self.ev(sub[0])
                tgt = self.env.get(name)
                if not isinstance(tgt, Vec):
                    raise RefError("subscripted assignment to non-array")
                if idx.denominator != 1 or not 0 <= int(idx) < len(tgt.v):
                    raise RefError("index out of range in assignment")
                tgt.v[int(idx)] = val
            else:
                # value semantics: a plain copy "b <- a" of an array makes b independent of a
                # (this is what the recorded dependencies and the Fortran target implement)
                self.env[name] = Vec(val.v) if isinstance(val, Vec) else val
            return
        ident, lo, hi = loops[0]
        lo_v, hi_v = self.ev(lo), self.ev(hi)
        had = ident in self.env
        for i in range(int(lo_v), int(hi_v)):
            self.env[ident] = Fraction(i)
            self._loops(name, sub, rhs, loops[1:])
        if not had:
            self.env.pop(ident, None)


def env_snapshot(env, only_persistent=False):
    out = {}
    for n, v in env.items():
        if only_persistent and not is_persistent(n):
            continue
        out[n] = snapshot_value(v)
    return out

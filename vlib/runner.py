"""Common runner: ./check <ID> <quick|thorough> [--replay FILE]

Exit codes: 0 property held on everything explored (KNOWN-FINDING lines allowed),
1 with "VIOLATION property=<id> replay=<path>" lines, 2 harness error.
"""
import hashlib
import importlib
import json
import multiprocessing
import os
import sys
import time
import traceback
from collections import Counter

ROOT = os.path.dirname(os.path.dirname(os.path.abspath(__file__)))
REPO = os.environ.get("VERIF_REPO", "/repo")


class HarnessError(Exception):
    """Something in the machinery (not in dagrt) went wrong -> exit 2."""


def canon(obj):
    return json.dumps(obj, sort_keys=True, separators=(",", ":"), default=repr)


def digest(obj):
    return hashlib.sha1(canon(obj).encode()).digest()[:8]


def derive_seed(seed, *parts):
    h = hashlib.sha256(("%d/" % seed + "/".join(str(p) for p in parts)).encode())
    return int.from_bytes(h.digest()[:4], "big")


class Ctx:
    """Collects what a run explored.  One per process; shards are merged."""

    MAX_SAMPLES = 4

    def __init__(self, pid, tier, seed, shard=0, nshards=1, budget_s=None,
                 excluded=()):
        self.pid = pid
        self.tier = tier
        self.seed = seed
        self.shard = shard
        self.nshards = nshards
        self.t0 = time.time()
        self.budget_s = budget_s
        self.evaluations = 0
        self.nontrivial = set()
        self.classes = Counter()
        self.samples = []
        self.failures = {}      # signature -> dict(case=, msg=, count=, sub=)
        self.extra = {}         # free-form coverage keys (summed if int)
        self.excluded = set(excluded)
        self.timed_out = False

    # -- bookkeeping ------------------------------------------------------
    @property
    def quick(self):
        return self.tier == "quick"

    def shard_seed(self, *parts):
        return derive_seed(self.seed, self.pid, self.shard, *parts)

    def out_of_time(self):
        if self.budget_s is not None and time.time() - self.t0 > self.budget_s:
            self.timed_out = True
            return True
        return False

    def is_excluded(self, feature):
        return feature in self.excluded

    def note(self, case, nontrivial, classes=(), sample=None, key=None):
        """Record one explored case."""
        self.evaluations += 1
        for c in classes:
            self.classes[c] += 1
        if nontrivial:
            d = digest(case if key is None else key)
            if d not in self.nontrivial:
                self.nontrivial.add(d)
                if len(self.samples) < self.MAX_SAMPLES:
                    self.samples.append(case if sample is None else sample)

    def count(self, key, n=1):
        self.extra[key] = self.extra.get(key, 0) + n

    def fail(self, sub, case, msg, sig=None):
        """Record an oracle failure (collect, do not stop)."""
        sig = "%s|%s" % (sub, sig if sig is not None else msg.split("\n")[0][:80])
        size = len(canon(case))
        cur = self.failures.get(sig)
        if cur is None:
            self.failures[sig] = dict(sub=sub, case=case, msg=msg, count=1, size=size)
        else:
            cur["count"] += 1
            if size < cur["size"]:
                cur.update(case=case, msg=msg, size=size)

    # -- shard plumbing ---------------------------------------------------
    def export(self):
        return dict(evaluations=self.evaluations, nontrivial=self.nontrivial,
                    classes=self.classes, samples=self.samples,
                    failures=self.failures, extra=self.extra,
                    timed_out=self.timed_out)

    def merge(self, other):
        self.evaluations += other["evaluations"]
        self.nontrivial |= other["nontrivial"]
        self.classes.update(other["classes"])
        for s in other["samples"]:
            if len(self.samples) < self.MAX_SAMPLES:
                self.samples.append(s)
        for sig, f in other["failures"].items():
            cur = self.failures.get(sig)
            if cur is None:
                self.failures[sig] = dict(f)
            else:
                cur["count"] += f["count"]
                if f["size"] < cur["size"]:
                    cur.update(case=f["case"], msg=f["msg"], size=f["size"])
        for k, v in other["extra"].items():
            if isinstance(v, (int, float)) and not isinstance(v, bool):
                self.extra[k] = self.extra.get(k, 0) + v
            else:
                self.extra.setdefault(k, v)
        self.timed_out = self.timed_out or other["timed_out"]

    def parallel(self, func, nshards, *args):
        """Run func(subctx, *args) in nshards forked processes and merge."""
        if nshards <= 1:
            func(self, *args)
            return
        jobs = [(self.pid, self.tier, self.seed, i, nshards, self.budget_s,
                 tuple(self.excluded), func.__module__, func.__name__, args)
                for i in range(nshards)]
        mp = multiprocessing.get_context("fork")
        with mp.Pool(min(nshards, os.cpu_count() or 1)) as pool:
            it = pool.imap_unordered(_shard_entry, jobs)
            got = 0
            while got < len(jobs):
                # watchdog: shards stop by themselves at the budget; a shard stuck inside one case
                # (never a violation: "inconclusive") is abandoned at twice the budget
                wait = None
                if self.budget_s is not None:
                    wait = max(5.0, self.t0 + 2 * self.budget_s - time.time())
                try:
                    res = it.next(timeout=wait)
                except multiprocessing.TimeoutError:
                    pool.terminate()
                    self.timed_out = True
                    self.extra["abandoned_shards"] = self.extra.get("abandoned_shards", 0) + len(jobs) - got
                    print("note: %d shard(s) abandoned at twice the time budget (inconclusive, not a violation)"
                          % (len(jobs) - got))
                    break
                got += 1
                if "harness_error" in res:
                    raise HarnessError(res["harness_error"])
                self.merge(res)


def _shard_entry(job):
    pid, tier, seed, i, n, budget, excluded, modname, fname, args = job
    try:
        mod = importlib.import_module(modname)
        ctx = Ctx(pid, tier, seed, shard=i, nshards=n, budget_s=budget,
                  excluded=excluded)
        getattr(mod, fname)(ctx, *args)
        return ctx.export()
    except BaseException:
        return {"harness_error": traceback.format_exc()}


# -- hypothesis glue -------------------------------------------------------

def hyp_explore(ctx, strategy, body, max_examples, label=""):
    """Drive body(case) with Hypothesis-generated cases.  body records via ctx
    (collect-then-minimise), so Hypothesis itself never sees a failure."""
    import hypothesis
    from hypothesis import HealthCheck, Phase, given, settings

    st = settings(max_examples=max_examples, database=None, deadline=None,
                  derandomize=False, report_multiple_bugs=False,
                  phases=[Phase.generate],
                  suppress_health_check=list(HealthCheck))

    @hypothesis.seed(ctx.shard_seed(label))
    @st
    @given(strategy)
    def explore(case):
        if ctx.out_of_time():
            return
        body(case)

    explore()


# -- main ------------------------------------------------------------------

def _shrink_child(conn, shrink, sub, case):
    try:
        conn.send(("ok", shrink(sub, case)))
    except Exception:
        conn.send(("error", traceback.format_exc()))
    finally:
        conn.close()


def _bounded_shrink(shrink, sub, case, timeout):
    mp = multiprocessing.get_context("fork")
    parent, child = mp.Pipe(duplex=False)
    proc = mp.Process(target=_shrink_child, args=(child, shrink, sub, case))
    proc.start()
    child.close()
    out = case
    try:
        if parent.poll(timeout):
            status, val = parent.recv()
            if status == "ok":
                out = val
            else:
                print(val)
        else:
            print("note: minimisation stopped after %.0f s; the replay file holds the case as generated" % timeout)
    except (EOFError, OSError):
        pass
    finally:
        if proc.is_alive():
            proc.terminate()
            proc.join(5)
            if proc.is_alive():
                proc.kill()
        proc.join(5)
    return out


def _load_replays(pid):
    d = os.path.join(ROOT, "replays", pid)
    out = []
    if os.path.isdir(d):
        for fn in sorted(os.listdir(d)):
            if fn.endswith(".json"):
                with open(os.path.join(d, fn)) as f:
                    out.append((os.path.join("replays", pid, fn), json.load(f)))
    return out


def run_replay(mod, rep):
    """Returns None if the property holds on the replay case, else message."""
    try:
        return mod.replay(rep["sub"], rep["case"])
    except HarnessError:
        raise
    except Exception:
        return "exception escaping replay: " + traceback.format_exc(limit=6)


def main(argv=None):
    argv = list(sys.argv[1:] if argv is None else argv)
    if len(argv) < 1:
        print("usage: check <ID> <quick|thorough> [--replay FILE]")
        return 2
    pid = argv[0].upper()
    tier = os.environ.get("VERIF_TIER") or "quick"
    replay_file = None
    rest = argv[1:]
    while rest:
        a = rest.pop(0)
        if a in ("quick", "thorough"):
            tier = a
        elif a == "--replay":
            replay_file = rest.pop(0)
        else:
            print("unknown argument", a)
            return 2
    try:
        seed = int(os.environ.get("VERIF_SEED", "1"))
    except ValueError:
        seed = 1

    sys.path.insert(0, ROOT)
    sys.path.insert(0, REPO)
    sys.setrecursionlimit(10000)
    t0 = time.time()
    try:
        from vlib import evidence, known
        try:
            mod = importlib.import_module("checks.%s" % pid.lower())
        except ModuleNotFoundError as e:
            if ("checks.%s" % pid.lower()) in str(e):
                print("no check for", pid)
                return 2
            raise
        import dagrt  # noqa: F401  (fail early, as a harness error)
        if not os.path.abspath(dagrt.__file__).startswith(os.path.abspath(REPO) + os.sep):
            raise HarnessError("dagrt imported from %s, not from %s" % (dagrt.__file__, REPO))

        if replay_file is not None:
            with open(replay_file) as f:
                rep = json.load(f)
            msg = run_replay(mod, rep)
            if msg is None:
                print("replay %s: property holds" % replay_file)
                return 0
            print(msg)
            entry = known.load(pid).by_replay(os.path.relpath(os.path.abspath(replay_file), ROOT))
            if entry is not None:
                # the pinned reproducer of a listed finding: reported as such, as the tiers do
                print("KNOWN-FINDING: property=%s %s" % (pid, entry.text))
                return 0
            print("VIOLATION property=%s replay=%s" % (pid, replay_file))
            return 1

        kf = known.load(pid)
        budget = getattr(mod, "BUDGET_S", {}).get(tier)
        ctx = Ctx(pid, tier, seed, budget_s=budget, excluded=kf.exclusions())

        # 1. committed replays (regression tier; known findings are pinned here)
        violations = []
        known_lines = []
        reproduced = 0
        for path, rep in _load_replays(pid):
            msg = run_replay(mod, rep)
            entry = kf.by_replay(path)
            if msg is None:
                if entry is not None:
                    print("note: known finding %s no longer reproduces (%s)" % (entry.slug, path))
                continue
            if entry is not None:
                reproduced += 1
                known_lines.append("KNOWN-FINDING: property=%s %s" % (pid, entry.text))
            else:
                violations.append((path, msg))

        # 2. exploration
        mod.run(ctx)

        # 3. new failures -> minimise -> replay files
        os.makedirs(os.path.join(ROOT, "replays", "new"), exist_ok=True)
        shrink_deadline = time.time() + 300
        for sig, f in sorted(ctx.failures.items()):
            case = f["case"]
            shrink = getattr(mod, "shrink", None)
            if shrink is not None:
                # minimisation is a convenience and must never hold up the verdict: it runs in a child process
                # with a time limit (a failure that makes the code under test slow would otherwise be re-run
                # for every candidate); on a time-out the unshrunk case becomes the replay file
                case = _bounded_shrink(shrink, f["sub"], case, max(5.0, min(120.0, shrink_deadline - time.time())))
            rep = dict(property=pid, sub=f["sub"], case=case, message=f["msg"],
                       signature=sig, occurrences=f["count"], seed=seed, tier=tier)
            name = "%s-%s.json" % (pid, hashlib.sha1(canon([f["sub"], case]).encode()).hexdigest()[:10])
            path = os.path.join("replays", "new", name)
            with open(os.path.join(ROOT, path), "w") as fh:
                json.dump(rep, fh, indent=1, sort_keys=True, default=repr)
            violations.append((path, f["msg"]))

        wall = time.time() - t0
        evidence.write(pid, tier, seed, mod, ctx, wall, len(violations), reproduced)
        for line in known_lines:
            print(line)
        for path, msg in violations:
            print("---- %s\n%s" % (path, msg))
        for path, msg in violations:
            print("VIOLATION property=%s replay=%s" % (pid, path))
        print("%s %s: %d cases, %d distinct non-trivial, %d violation(s), %d known finding(s) reproduced, %.1fs%s"
              % (pid, tier, ctx.evaluations, len(ctx.nontrivial), len(violations),
                 reproduced, wall, " (time budget reached)" if ctx.timed_out else ""))
        return 1 if violations else 0
    except HarnessError as e:
        print("HARNESS ERROR:", e)
        return 2
    except Exception:
        traceback.print_exc()
        print("HARNESS ERROR: unexpected exception in the machinery")
        return 2


if __name__ == "__main__":
    sys.exit(main())

"""C09 - inferred kinds agree with the values computed at run time."""
import itertools

from hypothesis import strategies as st

from vlib import backends as B
from vlib import kinds as K
from vlib.progen import method_features, methods, walk_ops
from vlib.refexec import make_python_functions
from vlib.runner import canon, hyp_explore

LEVEL = "exploration"
RULE = ("Hypothesis-generated typed builder programs (real and complex scalars, integers from loop counters, flags, "
        "arrays, user-type vectors tagged as an ndarray subclass, powers, quotients, comparisons, min/max, subscripts, "
        "built-in and registered calls) on which infer_kinds succeeds: every variable written by any statement must "
        "have a non-None kind, and every value the real interpreter stores (recording variable store, 1-3 steps) must "
        "conform to the table entry (a complex value never under a real kind). Presented in program order and reversed. "
        "Plus the built-in table: for each of the 13 built-ins x admissible argument-kind tuples x concrete argument "
        "values, get_result_kinds(check=True) vs. what dagrt.builtins_python returns. Non-trivial = table has >= 2 "
        "distinct kinds and a variable whose kind needed another statement's result; distinct by canonical JSON.")
ASSUMPTIONS = ["programs on which inference raises are outside the property (counted)",
               "an int conforms to Scalar(real): constants are typed Scalar by design, only loop counters are Integer",
               "powers have non-negative integer constant exponents (a real base with a fractional exponent can be complex at run time; inference cannot know)"]
BUDGET_S = {"quick": 150, "thorough": 1500}

PROFILE = dict(complex_vars=True, assign_all_state=True, max_ops=10, alias_arrays=False, ifexpr=False)
FEATURE_PROFILE = {"isnan_on_arrays": {}}


def uvec_class():
    import numpy as np

    class UVec(np.ndarray):
        pass
    return UVec


def written_names(dag):
    out = {}
    for pname, phase in dag.phases.items():
        for s in phase.statements:
            for n in s.get_written_variables():
                out.setdefault(n, set()).add(pname)
            for l in getattr(s, "loops", []):
                out.setdefault(l[0], set()).add(pname)
    return out


def lookup(table, phase, name):
    from dagrt.utils import is_state_variable
    if is_state_variable(name):
        return table.global_table.get(name, "missing")
    return table.per_phase_table.get(phase, {}).get(name, "missing")


def check_case(case):
    import numpy as np
    from dagrt.data import SymbolKindFinder
    from dagrt.exec_numpy import NumpyInterpreter
    method = case["method"]
    info = {}
    try:
        dag = B.build_dag(method)
    except Exception as e:
        return "CodeBuilder raised %s: %s" % (type(e).__name__, e), info
    freg = K.make_registry()
    names = sorted(dag.phases)
    lists = [list(dag.phases[n].statements) for n in names]
    if case.get("reverse"):
        lists = [list(reversed(l)) for l in lists]
    try:
        table, _ = K.quiet(SymbolKindFinder(freg), names, lists)
    except Exception as e:
        info["inference"] = "raises " + type(e).__name__
        return None, info
    info["inference"] = "ok"
    info["kinds"] = sorted({K.kind_repr(k) for k in list(table.global_table.values())
                            + [k for t in table.per_phase_table.values() for k in t.values()]})
    # clause 1: every assigned variable has a kind
    for n, phases in sorted(written_names(dag).items()):
        for p in sorted(phases):
            k = lookup(table, p, n)
            if k == "missing" or k is None:
                return "inference succeeded but variable %s (assigned in phase %s) has %s kind" % (
                    n, p, "no" if k == "missing" else "a None"), info
    # clause 2: run-time values conform
    UVec = uvec_class()
    problems = []

    class TooBig(Exception):
        pass

    class Store(dict):
        def __setitem__(self, key, v):
            if isinstance(v, (int, float, complex)) and not isinstance(v, bool) and abs(v) > 1e30:
                raise TooBig()          # no exact reference here to cut runaway self-updates (x <- x**3)
            dict.__setitem__(self, key, v)
            ph = interp._cur_phase
            if ph is None:
                return
            k = lookup(table, ph, key)
            if k in ("missing", None):
                return
            if not K.conforms(v, k, lambda a: isinstance(a, UVec)):
                problems.append("phase %s: %s holds %s (%s) but its inferred kind is %s" % (
                    ph, key, type(v).__name__ + ("[%s]" % v.dtype if isinstance(v, np.ndarray) else ""),
                    repr(v)[:40], K.kind_repr(k)))

    interp = NumpyInterpreter(dag, make_python_functions())
    interp._cur_phase = None
    st_ = Store()
    interp.context = st_
    interp.eval_mapper.context = st_
    ctx0 = {}
    for n, v in method["state"].items():
        ctx0[n] = np.array(v, dtype=np.float64).view(UVec) if isinstance(v, list) else v
    interp.set_up(t_start=method["t0"], dt_start=method["dt0"], context=ctx0)
    orig = interp.run_single_step

    def rss():
        interp._cur_phase = interp.next_phase
        return orig()
    interp.run_single_step = rss
    try:
        n = 0
        for evt in interp.run(max_steps=case.get("steps", 2)):
            n += 1
            if n > 60:
                break
    except (B.MyError, B.OtherError, TooBig):
        pass
    except Exception as e:
        info["exec_error"] = "%s: %s" % (type(e).__name__, str(e)[:80])
    info["stores"] = len(st_)
    if problems:
        return "\n".join(sorted(set(problems))[:5]), info
    return None, info


# ---------------------------------------------------------------- built-in table

def builtin_cases():
    """(function id, arg kinds (names), arg values) triples."""
    import numpy as np
    from dagrt.data import Array, Boolean, Integer, Scalar, UserType
    UVec = uvec_class()
    vals = {
        "Scalar(real)": [2.5, -1.0, 3, float("nan")],
        "Scalar(complex)": [1 + 2j, 2j],
        "Integer": [2, 1],
        "Array(real)": [np.array([1.0, -2.0, 3.0, 4.0]), np.array([0.5])],
        "Array(complex)": [np.array([1j, 2.0, -1.0, 1 + 1j])],
        "UserType(y)": [np.array([1j, -2.0]).view(UVec), np.array([1.0, -2.0]).view(UVec)],
        "Boolean": [True],
    }
    kinds = {"Scalar(real)": Scalar(True), "Scalar(complex)": Scalar(False), "Integer": Integer(),
             "Array(real)": Array(True), "Array(complex)": Array(False), "UserType(y)": UserType("y"),
             "Boolean": Boolean()}
    one = ["<builtin>len", "<builtin>isnan", "<builtin>norm_1", "<builtin>norm_2", "<builtin>norm_inf",
           "<builtin>elementwise_abs", "<builtin>array", "<builtin>print"]
    for f in one:
        for kn in kinds:
            for v in vals[kn]:
                yield f, [kn], [kinds[kn]], [v]
    for ka, kb in itertools.product(kinds, kinds):
        for va in vals[ka][:1]:
            for vb in vals[kb][:1]:
                yield "<builtin>dot_product", [ka, kb], [kinds[ka], kinds[kb]], [va, vb]
    sq = {"Array(real)": np.array([1.0, 2.0, 3.0, 5.0]), "Array(complex)": np.array([1j, 2.0, 3.0, 5.0])}
    for ka in kinds:
        a = sq.get(ka, vals[ka][0])
        for kc in ("Scalar(real)", "Integer", "Array(real)"):
            c = 2 if kc != "Array(real)" else vals[kc][0]
            yield "<builtin>transpose", [ka, kc], [kinds[ka], kinds[kc]], [a, c]
            yield "<builtin>svd", [ka, kc], [kinds[ka], kinds[kc]], [a, c]
            for kb in kinds:
                b = sq.get(kb, vals[kb][0])
                for f in ("<builtin>matmul", "<builtin>linear_solve"):
                    yield f, [ka, kb, kc, kc], [kinds[ka], kinds[kb], kinds[kc], kinds[kc]], [a, b, c, c]


def check_builtin(fid, kind_names, arg_kinds, args):
    """None, message, or 'skip:<why>'."""
    import contextlib
    import io
    from dagrt.builtins_python import builtins
    from dagrt.function_registry import base_function_registry
    func = base_function_registry[fid]
    try:
        rk = func.get_result_kinds(dict(enumerate(arg_kinds)), check=True)
    except Exception as e:
        return "skip:kinds rejected (%s)" % type(e).__name__
    UVec = uvec_class()
    try:
        with contextlib.redirect_stdout(io.StringIO()):
            res = builtins[fid](*[a.copy() if hasattr(a, "copy") else a for a in args])
    except Exception as e:
        return "skip:implementation rejected (%s)" % type(e).__name__
    if len(rk) == 0:
        return None if res is None else "%s declared to return nothing but returned %r" % (fid, res)
    results = (res,) if len(rk) == 1 else tuple(res)
    if len(results) != len(rk):
        return "%s(%s): %d results declared, %d returned" % (fid, ", ".join(kind_names), len(rk), len(results))
    for i, (r, k) in enumerate(zip(results, rk)):
        if not K.conforms(r, k, lambda a: type(a).__name__ == "UVec"):
            import numpy as np
            return "%s(%s): result %d is %s%s but declared %s" % (
                fid, ", ".join(kind_names), i, type(r).__name__,
                "[%s, ndim %d]" % (r.dtype, r.ndim) if isinstance(r, np.ndarray) else "", K.kind_repr(k))
    return None


def sig_of(msg):
    first = msg.split("\n")[0]
    for key in ("has no kind", "has a None kind", "but its inferred kind is", "CodeBuilder raised", "declared"):
        if key in first:
            if key == "but its inferred kind is":
                return key + " " + first.split("kind is ")[1]
            if key == "declared":
                return first.split("(")[0] + " declared"
            return key
    return first[:40]


def replay(sub, case):
    if sub == "builtin":
        for fid, kn, ak, av in builtin_cases():
            if fid == case["function"] and kn == case["arg_kinds"]:
                m = check_builtin(fid, kn, ak, av)
                if m is not None and not m.startswith("skip:"):
                    return m
        return None
    return check_case(case)[0]


def shrink(sub, case):
    if sub == "builtin":
        return case
    from checks.c01 import shrink_method_case
    c = dict(case, plan={"max_steps": 1})
    out = shrink_method_case(c, lambda cc: check_case(cc)[0], sig_of)
    out.pop("plan", None)
    return out


def shard(ctx, n):
    strat = st.fixed_dictionaries({"method": methods(PROFILE), "reverse": st.booleans(), "steps": st.integers(1, 3)})

    def body(case):
        msg, info = check_case(case)
        feats = method_features(case["method"])
        classes = ["program", "inference_" + info.get("inference", "error").split(" ")[0]]
        for f in ("complex", "loop", "array", "multi_phase", "nested_call"):
            if f in feats:
                classes.append("has_" + f)
        if "x_pow" in feats:
            classes.append("has_power")
        if "exec_error" in info:
            ctx.count("programs_with_interpreter_error")
        nontriv = info.get("inference") == "ok" and len(info.get("kinds", [])) >= 2 and info.get("stores", 0) >= 3
        ctx.note(case, nontriv, classes)
        if msg is not None:
            ctx.fail("program", case, msg, sig=sig_of(msg))

    hyp_explore(ctx, strat, body, n, "program")


def run(ctx):
    excluded_isnan = ctx.is_excluded("isnan_on_arrays")
    nb = 0
    for fid, kn, ak, av in builtin_cases():
        if excluded_isnan and fid == "<builtin>isnan" and kn[0].startswith(("Array", "UserType")):
            ctx.count("excluded_by_known_finding")
            continue
        m = check_builtin(fid, kn, ak, av)
        case = {"function": fid, "arg_kinds": kn}
        skipped = m is not None and m.startswith("skip:")
        ctx.note(dict(case, arg_values=[repr(v)[:30] for v in av]), not skipped,
                 ["builtin", "builtin_skipped" if skipped else "builtin_checked"], key=case)
        if m is not None and not skipped:
            ctx.fail("builtin", case, m, sig=sig_of(m))
    if ctx.quick:
        ctx.parallel(shard, 16, 300)
    else:
        ctx.parallel(shard, 16, 6000)

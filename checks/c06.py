"""C06 - control-flow simplification never changes which statements run, or their order.

Oracle: guarded-trace equality between simplify_ast(t) and t under every
valuation of the flags (independent walker), no exception, and -- for loop-free
trees -- the simplified tree is accepted by the generic backend walker and
gives the same trace there.
"""
import itertools
import math

from hypothesis import strategies as st

from vlib import astwalk
from vlib.runner import hyp_explore

LEVEL = "exploration"
RULE = ("exhaustive: every tree over {Block(0..3 children), IfThen, IfThenElse, leaf, Null} with at most N nodes "
        "(N=5 quick, N=7 thorough), conditions from {c0, c1, not c0, not not c1, True, False}, leaves labelled in "
        "DFS order, x all 4 valuations; random: Hypothesis recursive trees (<=40 nodes, ForLoop pass-through nodes, "
        "<=4 flags, 'and' conditions). Non-trivial = contains a conditional with a non-constant condition and "
        "simplify_ast changed the tree's shape; distinct by canonical JSON of the tree.")
ASSUMPTIONS = ["leaf statements do not assign condition flags (single-definition rule, checked by C10)",
               "trace semantics of Block/IfThen/IfThenElse/ForLoop as documented in dag_ast.py"]
BUDGET_S = {"quick": 120, "thorough": 1500}

CONDS = ["c0", "c1", ["not", "c0"], ["not", ["not", "c1"]], True, False]


# ---------------------------------------------------------------- JSON <-> dag_ast

def cond_to_expr(c):
    from pymbolic.primitives import LogicalAnd, LogicalNot, Variable
    if c is True or c is False:
        return c
    if isinstance(c, str):
        return Variable(c)
    if c[0] == "not":
        return LogicalNot(cond_to_expr(c[1]))
    if c[0] == "and":
        return LogicalAnd(tuple(cond_to_expr(x) for x in c[1:]))
    raise ValueError(c)


def cond_flags(c, acc):
    if isinstance(c, str):
        acc.add(c)
    elif isinstance(c, list):
        for x in c[1:]:
            cond_flags(x, acc)
    return acc


def build(tree, counter=None):
    """JSON tree -> dag_ast tree; leaves get ids s0, s1, ... in DFS order."""
    from dagrt.codegen import dag_ast as A
    from dagrt.language import Nop
    if counter is None:
        counter = itertools.count()
    k = tree[0]
    if k == "L":
        return A.StatementWrapper(Nop(id="s%d" % next(counter)))
    if k == "N":
        return A.NullASTNode()
    if k == "B":
        return A.Block(*[build(c, counter) for c in tree[1]])
    if k == "I":
        return A.IfThen(cond_to_expr(tree[1]), build(tree[2], counter))
    if k == "E":
        t = build(tree[2], counter)
        e = build(tree[3], counter)
        return A.IfThenElse(cond_to_expr(tree[1]), t, e)
    if k == "F":
        return A.ForLoop(tree[1], tree[2], tree[3], build(tree[4], counter))
    raise ValueError(tree)


def tree_flags(tree, acc=None):
    acc = set() if acc is None else acc
    k = tree[0]
    if k == "B":
        for c in tree[1]:
            tree_flags(c, acc)
    elif k == "I":
        cond_flags(tree[1], acc)
        tree_flags(tree[2], acc)
    elif k == "E":
        cond_flags(tree[1], acc)
        tree_flags(tree[2], acc)
        tree_flags(tree[3], acc)
    elif k == "F":
        tree_flags(tree[4], acc)
    return acc


def has(tree, kinds):
    if tree[0] in kinds:
        return True
    k = tree[0]
    if k == "B":
        return any(has(c, kinds) for c in tree[1])
    if k == "I":
        return has(tree[2], kinds)
    if k == "E":
        return has(tree[2], kinds) or has(tree[3], kinds)
    if k == "F":
        return has(tree[4], kinds)
    return False


# ---------------------------------------------------------------- the oracle

def check_tree(tree):
    """Returns (failure message or None, simplification changed shape?)."""
    from dagrt.codegen.dag_ast import simplify_ast
    ast = build(tree)
    flags = sorted(tree_flags(tree))
    before = astwalk.serialise(ast)
    try:
        simp = simplify_ast(ast)
    except Exception as e:  # the property: terminates without an error on every input
        return "simplify_ast raised %s: %s" % (type(e).__name__, e), False
    try:
        after = astwalk.serialise(simp)
    except astwalk.WalkError as e:
        return "result contains a foreign node: %s" % e, False
    loop_free = not has(tree, ("F",))
    for bits in itertools.product([False, True], repeat=len(flags)):
        val = dict(zip(flags, bits))
        want = astwalk.trace(ast, val)
        got = astwalk.trace(simp, val)
        if want != got:
            return ("leaf sequence changed under %s: original %s, simplified %s"
                    % (val, [w[0] for w in want], [g[0] for g in got])), True
        if loop_free:
            try:
                got2 = astwalk.generic_walker_trace(simp, val)
            except ValueError as e:
                return "generic backend walker rejects the simplified tree: %s" % e, True
            if got2 != want:
                return ("leaf sequence seen by the generic walker differs under %s: %s vs %s"
                        % (val, [w[0] for w in want], [g[0] for g in got2])), True
    return None, before != after


def sig_of(msg):
    return msg.split(":")[0].split(" under ")[0][:60]


def replay(sub, case):
    msg, _ = check_tree(case)
    return msg


def shrink(sub, case):
    from vlib.shrink import shrink_tree
    sig = sig_of(replay(sub, case) or "")

    def children_of(t):
        k = t[0]
        if k == "B":
            return list(t[1])
        if k == "I":
            return [t[2]]
        if k == "E":
            return [t[2], t[3]]
        if k == "F":
            return [t[4]]
        return []

    def rebuild(t, ch):
        k = t[0]
        if k == "B":
            return ["B", ch]
        if k == "I":
            return ["I", t[1], ch[0]]
        if k == "E":
            return ["E", t[1], ch[0], ch[1]]
        if k == "F":
            return ["F", t[1], t[2], t[3], ch[0]]
        return t

    def still(t):
        m = replay(sub, t)
        return m is not None and sig_of(m) == sig

    case = shrink_tree(case, children_of, rebuild, [["L"], ["N"]], still, [400])
    # drop block children one at a time
    changed = True
    budget = 200
    while changed and budget > 0:
        changed = False
        for path, node in list(_walk(case)):
            if node[0] == "B":
                for i in range(len(node[1])):
                    budget -= 1
                    cand = _replace(case, path, ["B", node[1][:i] + node[1][i + 1:]])
                    if still(cand):
                        case = cand
                        changed = True
                        break
            if changed:
                break
    return case


def _walk(t, path=()):
    yield path, t
    k = t[0]
    idx = {"B": None, "I": [2], "E": [2, 3], "F": [4]}.get(k, [])
    if k == "B":
        for i, c in enumerate(t[1]):
            yield from _walk(c, path + ((1, i),))
    else:
        for i in idx:
            yield from _walk(t[i], path + (i,))


def _replace(t, path, new):
    if not path:
        return new
    t = list(t)
    p = path[0]
    if isinstance(p, tuple):
        ch = list(t[1])
        ch[p[1]] = _replace(ch[p[1]], path[1:], new)
        t[1] = ch
    else:
        t[p] = _replace(t[p], path[1:], new)
    return t


# ---------------------------------------------------------------- exhaustive part

_count_memo = {}


def count_exact(n):
    if n in _count_memo:
        return _count_memo[n]
    if n <= 0:
        return 0
    if n == 1:
        r = 3  # L, N, B[]
    else:
        r = 0
        for k in (1, 2, 3):
            for sizes in compositions(n - 1, k):
                r += math.prod(count_exact(s) for s in sizes)
        r += len(CONDS) * count_exact(n - 1)
        for a in range(1, n - 1):
            r += len(CONDS) * count_exact(a) * count_exact(n - 1 - a)
    _count_memo[n] = r
    return r


def compositions(total, k):
    if k == 1:
        if total >= 1:
            yield (total,)
        return
    for first in range(1, total - k + 2):
        for rest in compositions(total - first, k - 1):
            yield (first,) + rest


_tree_memo = {}


def trees_exact(n):
    if n <= 4:
        if n not in _tree_memo:
            _tree_memo[n] = list(_trees_exact(n))
        return _tree_memo[n]
    return _trees_exact(n)


def _trees_exact(n):
    if n == 1:
        yield ["L"]
        yield ["N"]
        yield ["B", []]
        return
    for unit in units_for(n):
        yield from unit_trees(unit)


def units_for(n):
    out = []
    if n == 1:
        return [("atom", n)]
    for k in (1, 2, 3):
        for sizes in compositions(n - 1, k):
            out.append(("B", n, sizes))
    for ci in range(len(CONDS)):
        out.append(("I", n, ci))
    for ci in range(len(CONDS)):
        for a in range(1, n - 1):
            out.append(("E", n, ci, a))
    return out


def unit_count(u):
    if u[0] == "atom":
        return 3
    if u[0] == "B":
        return math.prod(count_exact(s) for s in u[2])
    if u[0] == "I":
        return count_exact(u[1] - 1)
    if u[0] == "E":
        return count_exact(u[3]) * count_exact(u[1] - 1 - u[3])


def unit_trees(u):
    if u[0] == "atom":
        yield ["L"]
        yield ["N"]
        yield ["B", []]
    elif u[0] == "B":
        for ch in itertools.product(*[trees_exact(s) for s in u[2]]):
            yield ["B", list(ch)]
    elif u[0] == "I":
        c = CONDS[u[2]]
        for t in trees_exact(u[1] - 1):
            yield ["I", c, t]
    elif u[0] == "E":
        c = CONDS[u[2]]
        n, a = u[1], u[3]
        for t in trees_exact(a):
            for e in trees_exact(n - 1 - a):
                yield ["E", c, t, e]


def work_units(nmax, chunk=30000):
    units = []
    for n in range(1, nmax + 1):
        for u in units_for(n):
            c = unit_count(u)
            m = max(1, -(-c // chunk))
            for j in range(m):
                units.append((c / m, u, j, m))
    return units


def exhaustive_shard(ctx, nmax):
    units = work_units(nmax)
    # deterministic LPT assignment of units to shards
    loads = [0.0] * ctx.nshards
    mine = []
    for w, u, j, m in sorted(units, key=lambda x: (-x[0], repr(x[1]), x[2])):
        i = min(range(ctx.nshards), key=lambda s: (loads[s], s))
        loads[i] += w
        if i == ctx.shard:
            mine.append((u, j, m))
    for u, j, m in mine:
        for idx, tree in enumerate(unit_trees(u)):
            if idx % m != j:
                continue
            one(ctx, tree, "exhaustive")
    ctx.count("exhaustive_trees", 0)


def one(ctx, tree, sub):
    msg, changed = check_tree(tree)
    flags = tree_flags(tree)
    nontriv = bool(flags) and has(tree, ("I", "E")) and changed
    classes = [sub]
    if has(tree, ("F",)):
        classes.append("has_loop")
    if changed:
        classes.append("shape_changed")
    if has(tree, ("E",)):
        classes.append("has_else")
    ctx.note(tree, nontriv, classes)
    if sub == "exhaustive":
        ctx.count("exhaustive_trees")
    if msg is not None:
        ctx.fail(sub, tree, msg, sig=sig_of(msg))


# ---------------------------------------------------------------- random part

def tree_strategy():
    flags = st.sampled_from(["c0", "c1", "c2", "c3"])
    cond = st.recursive(
        st.one_of(flags, flags, flags, st.booleans()),
        lambda inner: st.one_of(
            st.tuples(st.just("not"), inner).map(list),
            st.tuples(st.just("not"), inner).map(list),
            st.tuples(st.just("and"), inner, inner).map(list)),
        max_leaves=3)
    leaf = st.one_of(st.just(["L"]), st.just(["L"]), st.just(["L"]), st.just(["N"]))

    def extend(inner):
        return st.one_of(
            st.lists(inner, min_size=0, max_size=4).map(lambda ch: ["B", ch]),
            st.lists(inner, min_size=2, max_size=5).map(lambda ch: ["B", ch]),
            st.tuples(cond, inner).map(lambda t: ["I", t[0], t[1]]),
            st.tuples(cond, inner, inner).map(lambda t: ["E", t[0], t[1], t[2]]),
            st.tuples(st.sampled_from(["i", "j"]), st.integers(0, 2), st.integers(0, 3), inner)
              .map(lambda t: ["F", t[0], t[1], t[2], t[3]]),
        )
    return st.recursive(leaf, extend, max_leaves=14)


def run_blocks():
    """Blocks made of *runs*: 1-3 adjacent conditionals over the same flag (plain or negated, with and without else
    branches), several runs per block, bodies that are leaves, small blocks or conditionals re-testing a flag - the
    shapes the merging and collapsing rules are written for, which independent draws rarely line up."""
    flag = st.sampled_from(["c0", "c1", "c2"])
    small = st.one_of(st.just(["L"]), st.just(["L"]), st.just(["N"]),
                      st.lists(st.just(["L"]), min_size=2, max_size=3).map(lambda ch: ["B", ch]))

    @st.composite
    def body(draw, depth):
        k = draw(st.integers(0, 9))
        if depth <= 0 or k < 5:
            return draw(small)
        f = draw(flag)
        c = f if draw(st.booleans()) else ["not", f]
        inner = (["I", c, draw(body(depth - 1))] if draw(st.booleans())
                 else ["E", c, draw(body(depth - 1)), draw(body(depth - 1))])
        if k < 8:
            return inner
        ch = [draw(small), inner] + ([draw(small)] if draw(st.booleans()) else [])
        return ["B", list(draw(st.permutations(ch)))]

    @st.composite
    def block(draw, depth=2):
        nruns = draw(st.integers(1, 4))
        children = []
        for _ in range(nruns):
            f = draw(flag)
            for _ in range(draw(st.integers(1, 3))):
                c = f if draw(st.integers(0, 3)) > 0 else ["not", f]
                if draw(st.booleans()):
                    children.append(["E", c, draw(body(depth)), draw(body(depth))])
                else:
                    children.append(["I", c, draw(body(depth))])
            if draw(st.integers(0, 4)) == 0:
                children.append(["L"])
        t = ["B", children]
        w = draw(st.integers(0, 5))
        if w == 0:
            t = ["I", draw(flag), t]
        elif w == 1:
            t = ["E", draw(flag), ["L"], t]
        elif w == 2:
            t = ["B", [t]]
        return t
    return block()


def random_shard(ctx, n):
    hyp_explore(ctx, tree_strategy(), lambda tree: one(ctx, tree, "random"), n, "random")
    hyp_explore(ctx, run_blocks(), lambda tree: one(ctx, tree, "runs"), n, "runs")


def run(ctx):
    if ctx.quick:
        nmax, nrand, shards = 5, 400, 8
    else:
        nmax, nrand, shards = 7, 30000, 16
    total = sum(count_exact(n) for n in range(1, nmax + 1))
    ctx.parallel(exhaustive_shard, shards, nmax)
    ctx.extra["exhaustive"] = (ctx.extra.get("exhaustive_trees") == total) and not ctx.timed_out
    ctx.extra["exhaustive_space"] = "all %d trees with <= %d nodes x 4 valuations" % (total, nmax)
    ctx.parallel(random_shard, shards, nrand)

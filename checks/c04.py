"""C04 - each step runs every statement of the phase once, after its dependencies."""
import copy

from hypothesis import strategies as st

from vlib.runner import hyp_explore

LEVEL = "exploration"
RULE = ("Harness A: Hypothesis-generated hand-written acyclic phases (2-10 statements: Assign to distinct variables, "
        "YieldState, Nop, FailStep; guards True/False/flag/negated flag with the flags supplied as state; ids from a random "
        "alphabet so the iteration order of the dependency sets varies) run for 1-2 steps through a NumpyInterpreter "
        "subclass recording evaluate_condition/exec_* callbacks. Harness B: ExecutionController driven directly with a "
        "recording target whose exec callbacks return drawn dynamic requests (new_deps), started from the phase's sinks or "
        "from a drawn subset of roots. History invariants: no id dispatched twice in a step; when an id is dispatched all "
        "its dependencies were visited earlier in the step; (A) a step not cut short visits every id, a false guard means no "
        "exec callback but dependents still run; (B) unvisited requests and their unvisited dependencies "
        "are visited before everything else that was already planned. Non-trivial = >= 3 "
        "statements, >= 1 edge and (A) a false guard or >= 2 sinks / (B) a request naming an unvisited-unplanned id; "
        "distinct by canonical JSON.")
ASSUMPTIONS = ["phases are well-formed (acyclic, dependencies exist): C10's domain",
               "dynamic requests name statements of the same phase"]
BUDGET_S = {"quick": 150, "thorough": 1500}

ALPHABET = "abcdefghijklmnopqrstuvwxyzABCDEFGHIJKLMNOPQRSTUVWXYZ0123456789_"


@st.composite
def graphs(draw, max_n=10):
    n = draw(st.integers(2, max_n))
    ids = draw(st.lists(st.text(alphabet=ALPHABET, min_size=1, max_size=6), min_size=n, max_size=n, unique=True))
    order = list(draw(st.permutations(ids)))
    deps = {}
    for k, i in enumerate(order):
        deps[i] = sorted(draw(st.lists(st.sampled_from(order[:k]), unique=True, max_size=3))) if k else []
    return ids, deps


@st.composite
def cases_a(draw):
    ids, deps = draw(graphs())
    stmts = []
    for i in ids:
        kind = draw(st.sampled_from(["assign", "assign", "assign", "yield", "nop", "fail", "toggle0", "toggle1"]))
        guard = draw(st.sampled_from(["true", "true", "false", "flag0", "flag1", "notflag0", "notflag1"]))
        if kind == "fail":
            guard = draw(st.sampled_from(["false", "flag0", "notflag1", "flag1"]))
        stmts.append({"id": i, "deps": deps[i], "kind": kind, "guard": None if kind == "nop" else guard})
    stmts = list(draw(st.permutations(stmts)))
    case = {"stmts": stmts, "flags": [draw(st.booleans()), draw(st.booleans())], "steps": draw(st.integers(1, 2))}
    if draw(st.integers(0, 3)) == 0:
        # a second phase that re-uses the ids (ids are only unique per phase) with other edges and kinds
        order = list(draw(st.permutations(ids)))
        stmts2 = []
        for k, i in enumerate(order):
            d2 = sorted(draw(st.lists(st.sampled_from(order[:k]), unique=True, max_size=2))) if k else []
            kind = draw(st.sampled_from(["assign", "assign", "yield", "nop"]))
            guard = None if kind == "nop" else draw(st.sampled_from(["true", "true", "false", "flag0", "notflag1"]))
            stmts2.append({"id": i, "deps": d2, "kind": kind, "guard": guard})
        case["stmts2"] = stmts2
        case["steps"] = draw(st.integers(2, 4))
    return case


@st.composite
def cases_b(draw):
    ids, deps = draw(graphs(9))
    sinks = [i for i in ids if not any(i in deps[j] for j in ids)]
    mode = draw(st.sampled_from(["sinks", "subset", "subset", "one"]))
    if mode == "sinks":
        roots = list(draw(st.permutations(sinks)))
    elif mode == "one":
        roots = [draw(st.sampled_from(ids))]
    else:
        roots = draw(st.lists(st.sampled_from(ids), unique=True, min_size=1, max_size=3))
    requests = {}
    for i in ids:
        if draw(st.integers(0, 3)) == 0:
            requests[i] = draw(st.lists(st.sampled_from(ids), unique=True, min_size=1, max_size=3))
    guards = {i: draw(st.integers(0, 4)) != 0 for i in ids}
    return {"ids": ids, "deps": deps, "roots": roots, "requests": requests, "guards": guards,
            "request_form": draw(st.sampled_from(["list", "list", "tuple", "generator", "iterator", "dict_keys"]))}


# ---------------------------------------------------------------- harness A

def build_a(case):
    import dagrt.language as lang
    phases = {"p": lang.ExecutionPhase(name="p", next_phase="q" if "stmts2" in case else "p",
                                       statements=build_a_statements(case["stmts"]))}
    if "stmts2" in case:
        phases["q"] = lang.ExecutionPhase(name="q", next_phase="p", statements=build_a_statements(case["stmts2"]))
    return lang.DAGCode(phases, "p")


def build_a_statements(stmts_):
    import dagrt.language as lang
    from pymbolic import var
    from pymbolic.primitives import LogicalNot
    conds = {"true": True, "false": False, "flag0": var("<state>f0"), "flag1": var("<state>f1"),
             "notflag0": LogicalNot(var("<state>f0")), "notflag1": LogicalNot(var("<state>f1"))}
    out = []
    for k, s in enumerate(stmts_):
        if s["kind"] == "nop":
            out.append(lang.Nop(id=s["id"], depends_on=s["deps"]))
        elif s["kind"] in ("toggle0", "toggle1"):
            # rewrites a flag that other statements' guards mention: a guard is evaluated when its statement is visited
            f = "<state>f" + s["kind"][-1]
            out.append(lang.Assign(id=s["id"], assignee=f, assignee_subscript=(), expression=LogicalNot(var(f)),
                                   condition=conds[s["guard"]], depends_on=s["deps"]))
        elif s["kind"] == "assign":
            out.append(lang.Assign(id=s["id"], assignee="x%d" % k, assignee_subscript=(), expression=k,
                                   condition=conds[s["guard"]], depends_on=s["deps"]))
        elif s["kind"] == "yield":
            out.append(lang.YieldState(id=s["id"], time=0, time_id="final", expression=k, component_id="y",
                                       condition=conds[s["guard"]], depends_on=s["deps"]))
        else:
            out.append(lang.FailStep(id=s["id"], condition=conds[s["guard"]], depends_on=s["deps"]))
    return out


def check_a(case):
    from dagrt.exec_numpy import FailStepException, NumpyInterpreter
    dag = build_a(case)
    log = []

    class Rec(NumpyInterpreter):
        def evaluate_condition(self, stmt):
            r = NumpyInterpreter.evaluate_condition(self, stmt)
            log.append(("visit", stmt.id, bool(r)))
            return r

    for name in ("exec_Assign", "exec_YieldState", "exec_Nop", "exec_FailStep"):
        def mk(name):
            def f(self, stmt):
                log.append(("exec", stmt.id))
                return getattr(NumpyInterpreter, name)(self, stmt)
            return f
        setattr(Rec, name, mk(name))
    interp = Rec(dag, {})
    interp.set_up(t_start=0, dt_start=1, context={"f0": case["flags"][0], "f1": case["flags"][1]})
    byids = {"p": {s["id"]: s for s in case["stmts"]}}
    if "stmts2" in case:
        byids["q"] = {s["id"]: s for s in case["stmts2"]}
    flags = [bool(case["flags"][0]), bool(case["flags"][1])]      # model of the two flags (toggled by some statements)

    def gv(guard):
        return {"true": True, "false": False, "flag0": flags[0], "flag1": flags[1],
                "notflag0": not flags[0], "notflag1": not flags[1], None: True}[guard]
    for step in range(case["steps"]):
        del log[:]
        failed = False
        byid = byids[interp.next_phase]
        try:
            for evt in interp.run_single_step():
                pass
        except FailStepException:
            failed = True
        except Exception as e:
            return "step %d: the interpreter raised %s: %s" % (step, type(e).__name__, str(e)[:100])
        m = invariants(log, {i: s["deps"] for i, s in byid.items()})
        if m is not None:
            return "step %d: %s" % (step, m)
        visited = [e[1] for e in log if e[0] == "visit"]
        executed = [e[1] for e in log if e[0] == "exec"]
        want_exec = []
        for e in log:
            # replay the step on the model: a guard is evaluated with the flag values current at the visit
            if e[0] == "visit":
                want = gv(byid[e[1]]["guard"])
                if e[2] != want:
                    return "step %d: guard of %s evaluated to %s when the statement was visited, its value then was %s" % (
                        step, e[1], e[2], want)
                if want:
                    want_exec.append(e[1])
                    k_ = byid[e[1]]["kind"]
                    if k_ in ("toggle0", "toggle1"):
                        flags[int(k_[-1])] = not flags[int(k_[-1])]
        if executed != want_exec:
            return "step %d: exec callbacks for %s, but the visited statements whose guard holds are %s" % (
                step, executed, want_exec)
        if not failed and set(visited) != set(byid):
            return "step %d completed but visited only %s of %s" % (step, sorted(visited), sorted(byid))
        if failed:
            last = visited[-1]
            if byid[last]["kind"] != "fail":
                return "step %d failed at %s, which is not a FailStep" % (step, last)
    return None


def invariants(log, deps):
    seen = set()
    for e in log:
        if e[0] != "visit":
            continue
        i = e[1]
        if i in seen:
            return "statement %s is dispatched twice in one step" % i
        missing = [d for d in deps[i] if d not in seen]
        if missing:
            return "statement %s is dispatched before its dependencies %s were visited" % (i, sorted(missing))
        seen.add(i)
    return None


# ---------------------------------------------------------------- harness B

def check_b(case):
    import dagrt.language as lang
    from dagrt.language import ExecutionController
    ids, deps = case["ids"], case["deps"]
    stmts = [lang.Nop(id=i, depends_on=deps[i]) for i in ids]
    phase = lang.ExecutionPhase(name="p", next_phase="p", statements=stmts)
    dag = lang.DAGCode({"p": phase}, "p")
    ctrl = ExecutionController(dag)
    log = []
    snapshots = []     # (position in visit order, requests, visited then, planned then)

    class Target:
        def evaluate_condition(self, stmt):
            log.append(("visit", stmt.id))
            return case["guards"][stmt.id]

        def exec_Nop(self, stmt):
            log.append(("exec", stmt.id))
            req = case["requests"].get(stmt.id)
            if req:
                visited = [e[1] for e in log if e[0] == "visit"]
                snapshots.append((len(visited), list(req), set(visited), list(ctrl.plan)))
                # the request comes back in one of the containers a callback may use (some can be read only once)
                form = case.get("request_form", "list")
                return None, {"list": list, "tuple": tuple, "generator": lambda r: (x for x in r), "iterator": iter,
                              "dict_keys": lambda r: dict.fromkeys(r).keys()}[form](list(req))
            return None, []

    ctrl.reset()
    try:
        ctrl.update_plan(phase, list(case["roots"]))
        n = 0
        for evt in ctrl(phase, Target()):
            n += 1
            if n > 500:
                return "the controller does not terminate"
        if len(log) > 2000:
            return "the controller does not terminate"
    except Exception as e:
        return "the controller raised %s: %s" % (type(e).__name__, str(e)[:100])
    m = invariants(log, deps)
    if m is not None:
        return m
    visited = [e[1] for e in log if e[0] == "visit"]
    pos = {i: k for k, i in enumerate(visited)}

    def closure(start):
        out, todo = set(), list(start)
        while todo:
            x = todo.pop()
            for d in deps[x]:
                if d not in out:
                    out.add(d)
                    todo.append(d)
        return out
    # everything reachable from the roots and from executed requests must have been visited
    need = set(case["roots"]) | closure(case["roots"])
    for k, req, vis, planned in snapshots:
        need |= set(req) | closure(req)
    if not need <= set(visited):
        return "statements %s were requested (or are dependencies of requests) but never visited" % sorted(need - set(visited))
    earlies = []
    for k, req, vis, planned in snapshots:
        earlies.append((k, {r for r in req if r not in vis} | {d for d in closure(req) if d not in vis}))
    for si, (k, req, vis, planned) in enumerate(snapshots):
        # "statements requested while a step is running are executed with their unvisited
        # dependencies before anything already planned": E = unvisited requests and their unvisited
        # dependencies (whether or not they happened to be planned already), L = the rest of the plan
        early = {r for r in req if r not in vis} | {d for d in closure(req) if d not in vis}
        late = [p for p in planned if p not in early]
        for x in early:
            for y in late:
                if x in pos and y in pos and pos[x] > pos[y]:
                    # a later request (made before x ran) that names y, or needs y, legitimately
                    # moves y ahead again: the newest request wins
                    if any(k2 <= pos[x] and y in e2 for (k2, e2) in earlies[si + 1:]):
                        continue
                    return ("statement %s was requested (or is a dependency of a request) while %s was already "
                            "planned and is neither, yet %s ran first" % (x, y, y))
    return None


def sig_of(msg):
    for key in ("dispatched twice", "before its dependencies", "raised", "does not terminate", "never visited",
                "ran first", "exec callbacks for", "completed but visited", "guard of", "failed at"):
        if key in msg:
            return key
    return msg[:40]


def replay(sub, case):
    return check_a(case) if sub == "interpreter" else check_b(case)


def shrink(sub, case):
    sig = sig_of(replay(sub, case) or "")

    def still(c):
        try:
            m = replay(sub, c)
        except Exception:
            return False
        return m is not None and sig_of(m) == sig
    changed = True
    while changed:
        changed = False
        if sub == "interpreter":
            for k in range(len(case["stmts"])):
                c = copy.deepcopy(case)
                sid = c["stmts"].pop(k)["id"]
                for s in c["stmts"]:
                    s["deps"] = [d for d in s["deps"] if d != sid]
                if c["stmts"] and still(c):
                    case, changed = c, True
                    break
        else:
            for i in list(case["ids"]):
                c = copy.deepcopy(case)
                c["ids"].remove(i)
                c["deps"].pop(i)
                for j in c["deps"]:
                    c["deps"][j] = [d for d in c["deps"][j] if d != i]
                c["roots"] = [r for r in c["roots"] if r != i]
                c["requests"] = {k: [r for r in v if r != i] for k, v in c["requests"].items() if k != i}
                c["requests"] = {k: v for k, v in c["requests"].items() if v}
                c["guards"].pop(i)
                if c["ids"] and c["roots"] and still(c):
                    case, changed = c, True
                    break
            if not changed:
                for k in list(case["requests"]):
                    c = copy.deepcopy(case)
                    c["requests"].pop(k)
                    if still(c):
                        case, changed = c, True
                        break
    return case


def shard(ctx, n):
    def body_a(case):
        stmts = case["stmts"]
        nedges = sum(len(s["deps"]) for s in stmts)
        ids = [s["id"] for s in stmts]
        sinks = [i for i in ids if not any(i in s["deps"] for s in stmts)]
        falseg = any(s["guard"] in ("false",) or (s["guard"] == "flag0" and not case["flags"][0])
                     or (s["guard"] == "flag1" and not case["flags"][1])
                     or (s["guard"] == "notflag0" and case["flags"][0])
                     or (s["guard"] == "notflag1" and case["flags"][1]) for s in stmts if s["guard"])
        classes = ["interpreter"] + (["false_guard"] if falseg else []) + (["multi_sink"] if len(sinks) >= 2 else [])
        if any(s["kind"] == "nop" for s in stmts):
            classes.append("has_nop")
        ctx.note(case, len(stmts) >= 3 and nedges >= 1 and (falseg or len(sinks) >= 2), classes)
        msg = check_a(case)
        if msg is not None:
            ctx.fail("interpreter", case, msg, sig=sig_of(msg))

    def body_b(case):
        nedges = sum(len(v) for v in case["deps"].values())
        classes = ["controller"]
        if case["requests"]:
            classes.append("has_requests")
        sinks = [i for i in case["ids"] if not any(i in case["deps"][j] for j in case["ids"])]
        if set(case["roots"]) != set(sinks):
            classes.append("partial_roots")
        msg = check_b(case)
        ctx.note(case, len(case["ids"]) >= 3 and nedges >= 1 and bool(case["requests"])
                 and set(case["roots"]) != set(sinks), classes)
        if msg is not None:
            ctx.fail("controller", case, msg, sig=sig_of(msg))

    hyp_explore(ctx, cases_a(), body_a, n, "a")
    hyp_explore(ctx, cases_b(), body_b, n, "b")


def run(ctx):
    if ctx.quick:
        ctx.parallel(shard, 16, 150)
    else:
        ctx.parallel(shard, 16, 20000)

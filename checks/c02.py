"""C02 - recorded dependencies make every admissible schedule equal to program order."""
import copy
import hashlib
from fractions import Fraction

from hypothesis import strategies as st

from checks.c01 import shrink_method_case
from vlib import backends as B
from vlib import sched
from vlib import tree as T
from vlib.progen import count_ops, method_features, methods, op_trees, walk_ops
from vlib.refexec import Inexact, RefError, RefMachine, Vec, to_exact_value
from vlib.runner import canon, hyp_explore

LEVEL = "exploration"
RULE = ("Hypothesis-generated single-phase builder programs (3-14 operations, 2-3 names per type so RAW/WAR/WAW hazards "
        "are dense; reads in right-hand sides, guards, subscripts on both sides, loop bounds, call arguments, yielded "
        "value and time; yields/fail/switch/raise interleaved; builder fresh names with adversarial user names). The "
        "recorded graph (depends_on, condition of builder.statements) is executed by an independent statement-level "
        "executor in every linear extension when there are <= CAP (quick 400, thorough 5000), otherwise in sampled "
        "ones (program order, latest-first, DFS-from-sinks variants, random priorities). Oracle: events, exit kind and "
        "final values of every variable equal the program-order reference run; no read of an unset variable; fresh "
        "names differ from every earlier name. Non-trivial = >= 2 extensions and >= 1 pair of statements sharing a "
        "variable with a write; distinct by canonical JSON of the program.")
ASSUMPTIONS = ["function calls are pure (the builder treats only non-assignments as externally visible), so the call order is not compared",
               "temporaries not yet computed at a fail/switch/raise are schedule-dependent and die with the step; only persistent variables and events are compared there",
               "user variables do not start with <cond> (internal per the language documentation)"]
BUDGET_S = {"quick": 150, "thorough": 1500}

PROFILE = dict(max_phases=1, max_ops=12, real_temps=["x", "z"], uvec_temps=["k1"], arr_temps=["a", "b"],
               flag_temps=["flag"], int_temps=["n", "m"], fresh_names=True, name_pool="adversarial", lookups=True,
               dead_code=True)


def initial_env(method):
    env = {"<t>": Fraction(method["t0"]), "<dt>": Fraction(method["dt0"])}
    for n, v in method["state"].items():
        env["<state>" + n] = to_exact_value(v)
    return env


def substitute_fresh(body, names):
    """Replace ["fresh", prefix, rhs] ops by plain assignments to the names the builder returned."""
    out = []
    for op in body:
        if op[0] == "reserve":
            names.pop(0)            # a name handed out ahead of its use: no statement
        elif op[0] == "fresh":
            out.append(["assign", names.pop(0), None, op[2], []])
        elif op[0] == "if":
            then = substitute_fresh(op[2], names)
            els = substitute_fresh(op[3], names) if op[3] else None
            out.append(["if", op[1], then, els])
        else:
            out.append(op)
    return out


def names_before(body):
    """For each fresh/if op in program order: the set of names the program used before it."""
    seen = set()
    out = []

    def rec(ops):
        for op in ops:
            if op[0] == "reserve":
                out.append(("fresh", set(seen)))
            elif op[0] == "fresh":
                out.append(("fresh", set(seen)))
                for t in op_trees(op):
                    seen.update(T.variables(t))
            elif op[0] == "if":
                seen.update(T.variables(op[1]))      # the condition is parsed before the flag is made
                out.append(("if", set(seen)))
                rec(op[2])
                if op[3]:
                    rec(op[3])
            else:
                for t in op_trees(op):
                    seen.update(T.variables(t))
                if op[0] == "assign":
                    seen.add(op[1])
                    for l in op[4]:
                        pass
                if op[0] == "call":
                    seen.update(op[1])
    rec(body)
    return out


def check_case(case, cap):
    method = case["method"]
    info = {}
    ph = method["phases"][0]
    fresh = []
    try:
        cb, phase = B.build_phase(ph, fresh=fresh)
    except Exception as e:
        return "CodeBuilder raised %s: %s" % (type(e).__name__, str(e)[:120]), info
    stmts = list(cb.statements)
    # -- fresh names (flags of if_ and explicit fresh_var_name calls)
    flag_names = []
    si = [0]

    def count_ops_(ops):
        return sum((0 if op[0] == "reserve" else 1)
                   + (count_ops_(op[2]) + (count_ops_(op[3]) if op[3] else 0) if op[0] == "if" else 0) for op in ops)
    if count_ops_(ph["body"]) != len(stmts):
        return "builder produced %d statements for %d operations" % (len(stmts), count_ops_(ph["body"])), info

    def walk(ops):
        for op in ops:
            if op[0] == "if":
                st0 = stmts[si[0]]
                if type(st0).__name__ != "Assign" or st0.assignee_subscript:
                    raise ValueError("statement %s created for an if_ is not a flag assignment" % st0.id)
                flag_names.append(st0.assignee)
                si[0] += 1
                walk(op[2])
                if op[3]:
                    walk(op[3])
            elif op[0] != "reserve":
                si[0] += 1
    try:
        walk(ph["body"])
    except ValueError as e:
        return "builder produced %s" % e, info
    if si[0] != len(stmts):
        return "builder produced %d statements for %d operations" % (len(stmts), si[0]), info
    handed = []
    fi = iter([n for _, n in fresh])
    gi = iter(flag_names)
    earlier = set()
    for kind, before in names_before(ph["body"]):
        name = next(fi) if kind == "fresh" else next(gi)
        if name in before or name in earlier:
            return "builder handed out %r, which is already in use (%s)" % (name, kind), info
        earlier.add(name)
        handed.append(name)
    info["fresh"] = len(handed)
    # -- reference run in program order
    ref_method = copy.deepcopy(method)
    ref_method["phases"][0]["body"] = substitute_fresh(ref_method["phases"][0]["body"], [n for _, n in fresh])
    m = RefMachine(ref_method)
    m.keep_temporaries = True
    try:
        ref_events, ref_outcome = m.single_step()
    except Inexact:
        info["skip"] = "inexact"
        return None, info
    except (RefError, T.UndefinedRead, T.EvalError, ZeroDivisionError, OverflowError, TypeError, AttributeError) as e:
        info["skip"] = "slip:%s" % type(e).__name__
        return None, info
    ref_env = sched.env_snapshot(m.env)
    ref_next = m.next_phase
    # -- the recorded graph
    ids = [s.id for s in stmts]
    by_id = {s.id: s for s in stmts}
    deps = {s.id: set(s.depends_on) for s in stmts}
    for i in ids:
        if not deps[i] <= set(ids):
            return "statement %s depends on unknown ids %s" % (i, sorted(deps[i] - set(ids))), info
    exts = sched.all_extensions(ids, deps, cap)
    info["exhaustive"] = exts is not None
    if exts is None:
        seed = int.from_bytes(hashlib.sha256(canon(method).encode()).digest()[:4], "big")
        exts = sched.sample_extensions(ids, deps, 60 if cap <= 400 else 200, seed)
    info["extensions"] = len(exts)
    # hazards: pairs sharing a variable with at least one write
    rw = {s.id: (set(s.get_read_variables()), set(s.get_written_variables())) for s in stmts}
    info["hazard"] = any((rw[a][1] & (rw[b][0] | rw[b][1])) or (rw[b][1] & rw[a][0])
                         for k, a in enumerate(ids) for b in ids[k + 1:])
    for order in exts:
        env = initial_env(method)
        ex = sched.StatementExecutor(env)
        outcome = "completed"
        nxt = ph["next"]
        exited = False
        try:
            for i in order:
                ex.run(by_id[i])
        except sched.StepExit as e:
            exited = True
            if e.kind == "fail":
                outcome = "failed"
            elif e.kind == "switch":
                nxt = e.arg
            else:
                outcome = ("raised", e.arg)
        except T.UndefinedRead as e:
            return ("schedule %s reads %s before any statement has set it (missing edge); statement order written: %s"
                    % (order, e.name, ids)), info
        except Inexact:
            info["skip"] = "inexact"
            return None, info
        except (RefError, T.EvalError, ZeroDivisionError, TypeError, AttributeError) as e:
            return "schedule %s fails with %s: %s (program order runs fine)" % (order, type(e).__name__, e), info
        if ex.events != ref_events:
            return "schedule %s yields events %s, program order %s" % (order, B.show(ex.events), B.show(ref_events)), info
        if outcome != ref_outcome or nxt != ref_next or exited != m.exited:
            return "schedule %s ends %s -> %s%s, program order %s -> %s%s" % (
                order, outcome, nxt, " (early exit)" if exited else "", ref_outcome, ref_next,
                " (early exit)" if m.exited else ""), info
        got = sched.env_snapshot(env)
        early = exited
        for n, v in ref_env.items():
            if early and not n.startswith(("<state>", "<p>")) and n not in ("<t>", "<dt>"):
                continue
            if n not in got:
                return "schedule %s leaves %s unset, program order gives %s" % (order, n, B.show(v)), info
            if got[n] != v:
                return "schedule %s gives %s = %s, program order %s" % (order, n, B.show(got[n]), B.show(v)), info
        if not early:
            extra = [n for n in got if n not in ref_env and not n.startswith("<cond>")]
            if extra:
                return "schedule %s sets %s, which program order never sets" % (order, extra), info
    return None, info


def sig_of(msg):
    for key in ("reads", "yields events", " ends ", "leaves", " sets ", "fails with", "handed out", "CodeBuilder raised",
                "depends on unknown", "builder produced", " gives "):
        if key in msg:
            return key.strip()
    return msg[:40]


def replay(sub, case):
    return check_case(case, 5000)[0]


def shrink(sub, case):
    c = {"method": case["method"], "plan": {"max_steps": 1}}
    out = shrink_method_case(c, lambda cc: check_case({"method": cc["method"]}, 400)[0], sig_of)
    return {"method": out["method"]}


def shard(ctx, n, cap):
    strat = st.fixed_dictionaries({"method": methods(PROFILE)})

    def body(case):
        msg, info = check_case(case, cap)
        method = case["method"]
        if "skip" in info:
            ctx.count("skipped_" + info["skip"].split(":")[0])
            ctx.note(case, False, ["skipped"])
            return
        feats = method_features(method)
        classes = ["exhaustive_extensions" if info.get("exhaustive") else "sampled_extensions"]
        for f in ("loop", "zero_trip", "else", "nested_if", "fail", "switch", "raise", "yield", "array", "alias",
                  "self_update", "fresh", "nested_call"):
            if f in feats:
                classes.append("has_" + f)
        ctx.count("schedules_executed", info.get("extensions", 0))
        nontriv = info.get("extensions", 0) >= 2 and info.get("hazard")
        ctx.note(case, bool(nontriv), classes)
        if msg is not None:
            ctx.fail("c02", case, msg, sig=sig_of(msg))

    hyp_explore(ctx, strat, body, n, "c02")


def run(ctx):
    if ctx.quick:
        ctx.parallel(shard, 16, 200, 400)
    else:
        ctx.parallel(shard, 16, 4000, 5000)

"""C05 - lowering a phase to structured code keeps order, guards and loops."""
import itertools

from hypothesis import strategies as st

from vlib import astwalk
from vlib import backends as B
from vlib.progen import methods
from vlib.runner import hyp_explore

LEVEL = "exploration"
RULE = ("Hypothesis-generated hand-written phases (2-10 statements: Assign with loop nests of depth 0-2 and constant or "
        "variable bounds, YieldState, FailStep, Nop; guards over <= 4 free flags: c, not c, and/or of those, True, False, and comparisons of 2 numeric variables valued in {0, 1, NaN}; looped statements with and without a mention of their counter; "
        "random DAG over a random permutation of ids so id order and topological order are uncorrelated) and the phases of "
        "builder-made programs (guards = builder flags, treated as free booleans). create_ast_from_phase is walked by an "
        "independent trace walker and by a recording subclass of the generic backend walker under ALL valuations of the "
        "flags: executed leaf ids = non-Nop statements whose guard holds, each once; each leaf inside exactly its declared "
        "loops (any nesting order unless a bound uses another counter); order consistent with the transitive closure of the dependency edges; tree identical for 6 orders of the "
        "statement container incl. frozenset. Non-trivial = >= 3 statements, >= 1 edge, a non-constant guard or a loop; "
        "distinct by canonical JSON of the phase.")
ASSUMPTIONS = ["guards are boolean combinations of flags that no statement of the trace changes (trace semantics)",
               "the documentation allows any nesting order of a statement's loops, so loops are compared as a set"]
BUDGET_S = {"quick": 150, "thorough": 1500}

FLAGS = ["c0", "c1", "c2", "c3"]
NUMS = ["v0", "v1"]
NUM_VALUES = [0.0, 1.0, float("nan")]


@st.composite
def conds(draw):
    k = draw(st.integers(0, 20))
    f = lambda: draw(st.sampled_from(FLAGS))   # noqa: E731
    if k == 17:
        return ["not", ["and", f(), f()]]          # holds whenever one of the two is false
    if k == 18:
        return ["not", ["or", f(), ["not", f()]]]
    if k >= 19:
        # constant guards that are not the literals True / False (a NumPy comparison of two coefficients, a 0/1 switch)
        return ["const", draw(st.sampled_from([0, 1, 0.0, 2.5, "npFalse", "npTrue", "npint0", "npint3"]))]
    if k >= 14:
        # comparisons of numeric variables (valuations include NaN, for which "not a <= b" and "a > b" differ)
        cmp_ = ["cmp", draw(st.sampled_from(NUMS)), draw(st.sampled_from(["<", "<=", ">", ">=", "==", "!="])),
                draw(st.sampled_from(NUMS + [1]))]
        return cmp_ if k == 14 else (["not", cmp_] if k == 15 else ["and", f(), ["not", cmp_]])
    if k == 12:
        return ["not", ["not", f()]]
    if k == 13:
        return ["not", ["not", ["not", f()]]]
    if k <= 3:
        return True
    if k == 4:
        return False
    if k <= 6:
        return f()
    if k <= 8:
        return ["not", f()]
    if k == 9:
        return ["and", f(), ["not", f()]]
    if k == 10:
        return ["and", f(), f(), f()]
    return ["or", f(), ["not", f()]]


@st.composite
def phases(draw):
    n = draw(st.integers(2, 10))
    pool = draw(st.permutations(["s%02d" % i for i in range(12)]))
    ids = list(pool[:n])
    order = list(draw(st.permutations(ids)))          # a topological order unrelated to id order
    stmts = []
    for k, sid in enumerate(order):
        deps = draw(st.lists(st.sampled_from(order[:k]), unique=True, max_size=3)) if k else []
        kind = draw(st.sampled_from(["assign", "assign", "assign", "loop1", "loop2", "yield", "nop", "fail"]))
        s = {"id": sid, "deps": sorted(deps), "kind": kind}
        if kind != "nop":
            s["cond"] = draw(conds())
        if kind in ("loop1", "loop2"):
            s["loops"] = []
            for lv in (["i"] if kind == "loop1" else draw(st.sampled_from([["i", "j"], ["j", "i"]]))):
                lo = draw(st.sampled_from([0, 0, 1, "n"]))
                hi = draw(st.sampled_from([3, "n", "m", ["n", 1]]))
                if s["loops"] and draw(st.booleans()):
                    # triangular nest: the inner bound uses the outer counter, so the nest order matters
                    hi = [s["loops"][0][0], 1]
                s["loops"].append([lv, lo, hi])
            s["uses_counter"] = draw(st.integers(0, 3)) > 0
        stmts.append(s)
    stmts = list(draw(st.permutations(stmts)))
    return {"stmts": stmts}


def cond_expr(c):
    from checks.c06 import cond_to_expr
    from pymbolic.primitives import LogicalOr
    if isinstance(c, list) and c[0] == "or":
        return LogicalOr(tuple(cond_expr(x) for x in c[1:]))
    if isinstance(c, list) and c[0] == "and":
        from pymbolic.primitives import LogicalAnd
        return LogicalAnd(tuple(cond_expr(x) for x in c[1:]))
    if isinstance(c, list) and c[0] == "not":
        from pymbolic.primitives import LogicalNot
        return LogicalNot(cond_expr(c[1]))
    if isinstance(c, list) and c[0] == "const":
        import numpy as np
        return {"npFalse": np.False_, "npTrue": np.True_, "npint0": np.int64(0), "npint3": np.int64(3)}.get(c[1], c[1]) \
            if isinstance(c[1], str) else c[1]
    if isinstance(c, list) and c[0] == "cmp":
        from pymbolic.primitives import Comparison, Variable
        return Comparison(Variable(c[1]), c[2], Variable(c[3]) if isinstance(c[3], str) else c[3])
    return cond_to_expr(c)


def bound(b):
    from pymbolic import var
    if isinstance(b, str):
        return var(b)
    if isinstance(b, list):
        return var(b[0]) + b[1]
    return b


def build_statements(case):
    import dagrt.language as lang
    from pymbolic import var
    out = []
    for s in case["stmts"]:
        k = s["kind"]
        if k == "nop":
            out.append(lang.Nop(id=s["id"], depends_on=s["deps"]))
            continue
        c = cond_expr(s["cond"])
        if k == "assign":
            out.append(lang.Assign(id=s["id"], assignee="x_" + s["id"], assignee_subscript=(), expression=1,
                                   condition=c, depends_on=s["deps"]))
        elif k in ("loop1", "loop2"):
            loops = [(l[0], bound(l[1]), bound(l[2])) for l in s["loops"]]
            if not s.get("uses_counter", True):
                # the trip count matters although no counter is mentioned
                out.append(lang.Assign(id=s["id"], assignee="acc_" + s["id"], assignee_subscript=(),
                                       expression=var("acc_" + s["id"]) + 3, loops=loops, condition=c, depends_on=s["deps"]))
                continue
            out.append(lang.Assign(id=s["id"], assignee="a_" + s["id"], assignee_subscript=(var(loops[-1][0]),),
                                   expression=var(loops[0][0]) + 1, loops=loops, condition=c, depends_on=s["deps"]))
        elif k == "yield":
            out.append(lang.YieldState(id=s["id"], time=0, time_id="final", expression=var("<state>y"),
                                       component_id="y", condition=c, depends_on=s["deps"]))
        elif k == "fail":
            out.append(lang.FailStep(id=s["id"], condition=c, depends_on=s["deps"]))
    return out


def lower(stmts, container=list):
    import dagrt.language as lang
    from dagrt.codegen.dag_ast import create_ast_from_phase
    phase = lang.ExecutionPhase(name="p", next_phase="p", statements=container(stmts))
    dag = lang.DAGCode({"p": phase}, "p")
    return create_ast_from_phase(dag, "p")


def check_statements(stmts, metamorphic=True):
    """stmts: list of dagrt statements (well-formed phase).  Returns message or None."""
    byid = {s.id: s for s in stmts}
    try:
        ast = lower(stmts)
    except Exception as e:
        return "create_ast_from_phase raised %s: %s" % (type(e).__name__, str(e)[:100])
    flags = set()
    for s in stmts:
        astwalk.flags_of(getattr(s, "condition", True), flags)
    flags = sorted(flags)
    # transitive closure of dependencies
    anc = {}

    def ancestors(i):
        if i not in anc:
            a = set()
            for d in byid[i].depends_on:
                a.add(d)
                a |= ancestors(d)
            anc[i] = a
        return anc[i]
    for i in byid:
        ancestors(i)
    declared_loops = {s.id: frozenset((l[0], str(l[1]), str(l[2])) for l in getattr(s, "loops", []) or [])
                      for s in stmts}
    nonnop = {s.id for s in stmts if type(s).__name__ != "Nop"}
    domains = [NUM_VALUES if f in NUMS else [False, True] for f in flags]
    vals = [dict(zip(flags, bits)) for bits in itertools.islice(itertools.product(*domains), 256)]
    for val in vals:
        try:
            tr = astwalk.trace(ast, val)
        except astwalk.WalkError as e:
            return "lowered tree cannot be walked: %s" % e
        try:
            tr2 = astwalk.generic_walker_trace(ast, val)
        except ValueError as e:
            return "the generic backend walker rejects the lowered tree: %s" % e
        if tr2 != tr:
            return "generic backend walker executes %s, independent walker %s (valuation %s)" % (
                [x[0] for x in tr2], [x[0] for x in tr], val)
        want = {i for i in nonnop if astwalk.eval_flag_condition(getattr(byid[i], "condition", True), val)}
        got = [x[0] for x in tr]
        if len(set(got)) != len(got):
            return "a statement is executed twice under %s: %s" % (val, got)
        if set(got) != want:
            return "under %s the tree executes %s, but the statements whose guard holds are %s" % (
                val, sorted(got), sorted(want))
        pos = {i: k for k, i in enumerate(got)}
        for i, loops in tr:
            if frozenset(loops) != declared_loops[i] or len(loops) != len(declared_loops[i]):
                return "statement %s sits in loops %s, declared %s" % (i, sorted(loops), sorted(declared_loops[i]))
            # any nesting order is allowed, except that a loop whose bounds use another loop's
            # counter must be nested inside that loop
            for k, (cname, lo, hi) in enumerate(loops):
                for other, _, _ in loops[k + 1:]:
                    import re
                    if re.search(r"\b%s\b" % re.escape(other), lo + " " + hi):
                        return ("statement %s: loop over %s (bounds %s..%s) encloses the loop over %s whose counter "
                                "its bounds use" % (i, cname, lo, hi, other))
        for a in got:
            for b in ancestors(a):
                if b in pos and pos[b] > pos[a]:
                    return "under %s statement %s runs before %s, on which it (transitively) depends" % (val, a, b)
    # loops belong to single statements: two statements must never share one loop node (fusing the
    # loops of s1 and s2 would interleave their iterations although s2 depends on all of s1)
    shared = astwalk.shared_loops(ast)
    if shared:
        return "statements %s share one loop node" % sorted(shared[0])
    if metamorphic:
        base = astwalk.serialise(ast)
        n = len(stmts)
        orders = [list(reversed(stmts)), stmts[1:] + stmts[:1], sorted(stmts, key=lambda s: s.id),
                  sorted(stmts, key=lambda s: s.id, reverse=True), stmts[n // 2:] + stmts[:n // 2]]
        for k, o in enumerate(orders):
            if astwalk.serialise(lower(o)) != base:
                return "the lowered tree depends on the order in which the statements are stored (order %d)" % k
        if astwalk.serialise(lower(stmts, frozenset)) != base:
            return "the lowered tree differs when the statements are stored in a frozenset"
        # a phase obtained from another one by copy(statements=...): nothing of the old phase (its roots, say)
        # may survive in the copy
        import dagrt.language as lang
        from dagrt.codegen.dag_ast import create_ast_from_phase
        done_ids = set()
        prefix = []
        for s_ in sorted(stmts, key=lambda x: len(anc[x.id])):
            if set(s_.depends_on) <= done_ids and len(prefix) < max(1, n // 2):
                prefix.append(s_)
                done_ids.add(s_.id)
        if prefix and len(prefix) < n:
            small = lang.ExecutionPhase(name="p", next_phase="p", statements=list(prefix))
            small.depends_on            # (computed, and possibly remembered, for the small phase)
            try:
                big = small.copy(statements=list(stmts))
                tree = create_ast_from_phase(lang.DAGCode({"p": big}, "p"), "p")
                if astwalk.serialise(tree) != base:
                    return "a phase made by copy(statements=...) from a smaller phase lowers differently from a phase made directly"
            except Exception as e:
                return "lowering a phase made by copy(statements=...) raised %s: %s" % (type(e).__name__, str(e)[:80])
    return None


def check_case(case):
    if "method" in case:
        try:
            dag = B.build_dag(case["method"])
        except Exception as e:
            return "CodeBuilder raised %s: %s" % (type(e).__name__, e)
        for name in sorted(dag.phases):
            m = check_statements(list(dag.phases[name].statements))
            if m is not None:
                return "phase %s: %s" % (name, m)
        return None
    return check_statements(build_statements(case))


def sig_of(msg):
    for key in ("raised", "cannot be walked", "rejects the lowered tree", "generic backend walker executes",
                "executed twice", "tree executes", "sits in loops", "whose counter", "share one loop node", "runs before", "depends on the order", "frozenset", "copy(statements"):
        if key in msg:
            return key
    return msg[:40]


def replay(sub, case):
    return check_case(case)


def shrink(sub, case):
    if "method" in case:
        from checks.c01 import shrink_method_case
        c = {"method": case["method"], "plan": {"max_steps": 1}}
        return {"method": shrink_method_case(c, lambda cc: check_case({"method": cc["method"]}), sig_of)["method"]}
    import copy
    sig = sig_of(check_case(case) or "")

    def still(c):
        try:
            m = check_case(c)
        except Exception:
            return False
        return m is not None and sig_of(m) == sig
    changed = True
    while changed:
        changed = False
        for i in range(len(case["stmts"])):
            c = copy.deepcopy(case)
            sid = c["stmts"].pop(i)["id"]
            for s in c["stmts"]:
                s["deps"] = [d for d in s["deps"] if d != sid]
            if c["stmts"] and still(c):
                case, changed = c, True
                break
        if changed:
            continue
        for s_i, s in enumerate(case["stmts"]):
            for d in s["deps"]:
                c = copy.deepcopy(case)
                c["stmts"][s_i]["deps"].remove(d)
                if still(c):
                    case, changed = c, True
                    break
            if changed:
                break
    return case


def shard(ctx, n_hand, n_builder):
    excluded_false_loop = ctx.is_excluded("false_guard_on_loop")

    def body(case):
        stmts = case["stmts"]
        if excluded_false_loop and any(s.get("cond") is False and s["kind"].startswith("loop") for s in stmts):
            ctx.count("excluded_by_known_finding")
            return
        nedges = sum(len(s["deps"]) for s in stmts)
        nonconst = any(s.get("cond") not in (True, False, None) for s in stmts)
        hasloop = any(s["kind"].startswith("loop") for s in stmts)
        classes = ["hand_written"]
        for s in stmts:
            classes.append("kind_" + s["kind"])
        if any(s.get("cond") is False for s in stmts):
            classes.append("const_false_guard")
        ctx.note(case, len(stmts) >= 3 and nedges >= 1 and (nonconst or hasloop), sorted(set(classes)))
        msg = check_case(case)
        if msg is not None:
            ctx.fail("hand", case, msg, sig=sig_of(msg))

    hyp_explore(ctx, phases(), body, n_hand, "hand")

    def body2(case):
        from vlib.progen import count_ops, method_features
        f = method_features(case["method"])
        ctx.note(case, count_ops(case["method"]) >= 3 and ("if" in f or "loop" in f), ["builder_made"])
        msg = check_case(case)
        if msg is not None:
            ctx.fail("builder", case, msg, sig=sig_of(msg))

    hyp_explore(ctx, st.fixed_dictionaries({"method": methods({"max_ops": 12})}), body2, n_builder, "builder")


def run(ctx):
    if ctx.quick:
        ctx.parallel(shard, 16, 150, 40)
    else:
        ctx.parallel(shard, 16, 20000, 3000)

"""C11 - a failing user function leaves the stepper consistent and resumable."""
import copy

from hypothesis import strategies as st

from vlib import backends as B
from vlib.progen import bind_sites, count_ops, method_features, methods
from vlib.refexec import RefMachine, base_function, is_persistent, make_python_functions, run_reference
from vlib.runner import hyp_explore

LEVEL = "fault_enumeration"
RULE = ("Hypothesis-generated builder programs (1-3 phases, user-function calls as statements, nested in expressions, "
        "in guards, yields and looped assignments, every call site bound to its own function name) x run plans of "
        "1-4 steps; a fault-free reference run counts the invocations of each site, then EVERY (site, invocation index) "
        "is made to raise once, in the interpreter and in the generated class. Checked: identity of the exception "
        "reaching the caller, no temporary left (context keys / instance attributes), every persistent variable in its "
        "allowed set (pre-step value, or a reference value of a write of this step that does not depend on the failing "
        "statement in the recorded graph; element-wise mixes for an interrupted loop), next phase, and resumability "
        "(continuing for <= 3 steps equals a fresh stepper started from the copied persistent state and phase). "
        "Non-trivial = the fault hit after a persistent write of that step or in a step >= 2, and the program has "
        ">= 2 persistent variables; distinct by (program, plan, site, index).")
ASSUMPTIONS = ["the fault plan is enumerated completely per generated program (every call index of every site)",
               "dependence is taken from the recorded graph (validated by C02)",
               "values stay in the exact domain up to the faulted step (otherwise the case is skipped)"]
BUDGET_S = {"quick": 150, "thorough": 1500}

PROFILE = dict(max_ops=9, alias_arrays=False, raise_=True, dead_code=False, call_in_bounds=True,
               extra_kinds=("call", "call", "call", "call", "real", "uvec"))


class InjectedFault(Exception):
    pass


class AbortRun(BaseException):
    """A user's own 'stop everything' signal: not an Exception subclass (like KeyboardInterrupt)."""


FAULT_TYPES = [InjectedFault, AttributeError, KeyError, ZeroDivisionError, NotImplementedError, TypeError, LookupError,
               AbortRun, RuntimeError]
# (not StopIteration: PEP 479 turns it into RuntimeError inside any generator, dagrt's or not)


class FaultPlan:
    def __init__(self, site, index, exc_type=InjectedFault):
        self.site, self.index = site, index
        self.counts = {}
        self.exc = None
        self.exc_type = exc_type

    def __call__(self, name):
        n = self.counts.get(name, 0)
        self.counts[name] = n + 1
        if name == self.site and n == self.index and self.exc is None:
            self.exc = self.exc_type("%s#%d" % (name, n))
            raise self.exc


def op_statement_ids(method):
    """phase -> list: op index (pre-order, as refexec numbers them) -> statement id of the builder."""
    return {ph["name"]: ["%s_%d" % (ph["name"], i) for i in range(10 ** 4)] for ph in method["phases"]}


def barrier_ops(ph):
    """Pre-order indices (the builder's statement numbers) of the non-assignments of a phase."""
    from vlib.progen import walk_ops
    return [i for i, op in enumerate(walk_ops(ph["body"])) if op[0] in ("yield", "fail", "switch", "restart", "raise")]


def dependents(phase, sid, ph=None):
    """Statements that transitively depend on sid: the recorded graph, plus - stated independently of what the
    builder recorded - the ordering the language documents for non-assignments (yield, fail, switch, raise):
    each waits for every statement written before it, and every statement written after it waits for it."""
    succ = {}
    for s in phase.statements:
        for d in s.depends_on:
            succ.setdefault(d, []).append(s.id)
    if ph is not None:
        n = len(phase.statements)
        name = ph["name"]
        for b in barrier_ops(ph):
            for i in range(b):
                succ.setdefault("%s_%d" % (name, i), []).append("%s_%d" % (name, b))
            for j in range(b + 1, n):
                succ.setdefault("%s_%d" % (name, b), []).append("%s_%d" % (name, j))
    out = set()
    todo = [sid]
    while todo:
        x = todo.pop()
        for y in succ.get(x, []):
            if y not in out:
                out.add(y)
                todo.append(y)
    return out


def reference_trace(method, plan):
    """Fault-free reference run with per-op trace.  Returns (history, status, steps) where
    steps[i] = {"phase", "pre": persistent state before, "trace": [...], "next_phase"}."""
    m = RefMachine(method)
    m.trace = []
    steps = []
    hist, status, n_steps = [], "done", 0
    from vlib import tree as T
    from vlib.refexec import Inexact, RefError
    while n_steps < plan["max_steps"] and len(steps) < 12:
        pre = m.persistent_state()
        cur = m.next_phase
        m.trace = []
        try:
            events, outcome = m.single_step()
        except Inexact:
            status = "inexact"
            break
        except (RefError, T.UndefinedRead, T.EvalError, ZeroDivisionError, OverflowError, TypeError, AttributeError) as e:
            status = "slip:" + type(e).__name__
            break
        try:
            post = m.persistent_state()
        except RefError:
            status = "slip:uninit"
            break
        steps.append({"phase": cur, "pre": pre, "trace": m.trace, "post": post, "next_phase": m.next_phase,
                      "outcome": outcome})
        if outcome == "completed":
            n_steps += 1
        elif outcome != "failed":
            status = "raised"
            break
    return status, steps


def same(val, cand):
    """Equality where an uninitialised element of the reference (array(n) before its
    initialisation loop) matches whatever garbage numpy.empty returned."""
    from vlib.refexec import UNINIT
    if isinstance(val, tuple) and isinstance(cand, tuple) and val[:1] == ("vec",) and cand[:1] == ("vec",):
        return len(val[1]) == len(cand[1]) and all(c is UNINIT or v == c for v, c in zip(val[1], cand[1]))
    return val == cand


def mix_ok(val, a, b):
    """val is an element-wise mix of vectors a and b."""
    if not (isinstance(val, tuple) and isinstance(a, tuple) and isinstance(b, tuple)):
        return False
    if val[0] != "vec" or a[0] != "vec" or b[0] != "vec" or not (len(val[1]) == len(a[1]) == len(b[1])):
        return False
    from vlib.refexec import UNINIT
    return all(v == x or v == y or x is UNINIT or y is UNINIT for v, x, y in zip(val[1], a[1], b[1]))


def persistent_of_interp(interp):
    return {n: B.norm(v) for n, v in interp.context.items() if is_persistent(n)}


def check_case(case, collect=None):
    method0, plan = case["method"], case["plan"]
    method, sites = bind_sites(method0)
    info = {"faults": 0}
    status, steps = reference_trace(method, plan)
    if status.startswith("slip"):
        info["skip"] = status
        return None, info
    try:
        dag = B.build_dag(method)
    except Exception as e:
        return "CodeBuilder raised %s: %s" % (type(e).__name__, e), info
    # invocations of each site per step (fault-free)
    plan_items = []          # (site, index, step number, op index, persistent writes before it in that step?)
    counts = {}
    for si, stp in enumerate(steps):
        wrote = False
        for t in stp["trace"]:
            for site in t["sites"]:
                j = counts.get(site, 0)
                counts[site] = j + 1
                plan_items.append((site, j, si, t["op"], wrote))
            if t["writes"]:
                wrote = True
    pnames = B.persistent_names(method)
    npers = len(pnames)
    problems = []
    phases_by_name = {ph["name"]: ph for ph in method["phases"]}
    for site, j, si, opi, wrote_before in plan_items:
        stp = steps[si]
        phase = dag.phases[stp["phase"]]
        sid = "%s_%d" % (stp["phase"], opi)
        if sid not in phase.id_to_stmt:
            return "cannot map op %d of phase %s to a statement" % (opi, stp["phase"]), info
        dep = dependents(phase, sid, phases_by_name[stp["phase"]]) | {sid}
        # allowed values per persistent variable
        allowed = {n: [v] for n, v in stp["pre"].items()}
        failing_after = {}
        for t in stp["trace"]:
            tsid = "%s_%d" % (stp["phase"], t["op"])
            for n, v in t["writes"].items():
                if tsid == sid:
                    failing_after[n] = v
                elif tsid not in dep:
                    allowed.setdefault(n, []).append(v)
        for backend in ("interpreter", "generated"):
            info["faults"] += 1
            # the exception class varies with the fault point (deterministically)
            exc_type = FAULT_TYPES[(len(site) + 3 * j + si + (1 if backend == "generated" else 0)) % len(FAULT_TYPES)] \
                if case.get("vary_exception_type", True) else InjectedFault
            fp = FaultPlan(site, j, exc_type)
            log_a = []
            fm = make_python_functions(fault=fp, sites=sites, log=log_a)
            try:
                if backend == "interpreter":
                    from dagrt.exec_numpy import NumpyInterpreter
                    stepper = NumpyInterpreter(dag, fm)
                else:
                    from dagrt.codegen import PythonCodeGenerator
                    cg = PythonCodeGenerator(class_name="Method")
                    cls = cg.get_class(dag)
                    stepper = cls(fm)
                stepper.set_up(t_start=method["t0"], dt_start=method["dt0"], context=B.initial_context(method))
            except Exception as e:
                return "%s: set-up raised %s: %s" % (backend, type(e).__name__, e), info
            if backend == "generated":
                attrs_before = set(vars(stepper))
                nm = cg._name_manager
                pattrs = {n: nm[n][5:] for n in sorted(pnames)}
            caught = None
            try:
                if case.get("drive") == "single_step":
                    # the caller drives run_single_step() itself, the way run() does internally
                    done = 0
                    tries = 0
                    while done < plan["max_steps"] and tries < 40:
                        tries += 1
                        try:
                            for evt in stepper.run_single_step():
                                pass
                            done += 1
                        except BaseException as e2:
                            if e2 is fp.exc or not isinstance(e2, Exception):
                                raise
                            nm2 = type(e2).__name__
                            if nm2 == "FailStepException":
                                continue
                            if nm2 == "TransitionEvent":
                                stepper.next_phase = e2.next_phase
                                done += 1
                                continue
                            raise
                else:
                    n = 0
                    for evt in stepper.run(max_steps=plan["max_steps"]):
                        n += 1
                        if n > 80:
                            break
            except BaseException as e:
                if e is fp.exc:
                    caught = e
                elif not isinstance(e, Exception):
                    raise
                else:
                    problems.append("%s: fault %s#%d (%s) surfaced as %s: %s" % (
                        backend, site, j, exc_type.__name__, type(e).__name__, str(e)[:80]))
                    continue
            where = "%s, fault at invocation %d of %s (step %d, statement %s)" % (backend, j, site, si, sid)
            if caught is None:
                problems.append("%s: the injected exception never reached the caller" % where)
                continue
            if caught is not fp.exc:
                problems.append("%s: a different exception object reached the caller" % where)
            # no temporaries
            if backend == "interpreter":
                extra = [k for k in stepper.context if not is_persistent(k)]
                if extra:
                    problems.append("%s: temporaries %s still in the variable store" % (where, sorted(extra)))
                state = persistent_of_interp(stepper)
            else:
                new_attrs = set(vars(stepper)) - attrs_before - set(pattrs.values())
                if new_attrs:
                    problems.append("%s: instance gained attributes %s" % (where, sorted(new_attrs)))
                state = {n: B.norm(getattr(stepper, a)) for n, a in pattrs.items() if hasattr(stepper, a)}
            state = {n: v for n, v in state.items() if n in pnames}
            # allowed values
            for n, v in sorted(state.items()):
                if v is None and n not in stp["pre"]:
                    continue
                cands = allowed.get(n, [])
                ok = any(same(v, c) for c in cands)
                if not ok and n in failing_after:
                    ok = any(mix_ok(v, c, failing_after[n]) for c in cands)
                if not ok:
                    problems.append("%s: persistent %s is %s; allowed %s%s" % (
                        where, n, B.show(v), B.show(cands),
                        " or an element-wise mix with %s" % B.show(failing_after[n]) if n in failing_after else ""))
            for n in stp["pre"]:
                if n in pnames and n not in state:
                    problems.append("%s: persistent %s disappeared" % (where, n))
            if stepper.next_phase != phase.next_phase:
                problems.append("%s: next phase is %s, expected the default successor %s" % (
                    where, stepper.next_phase, phase.next_phase))
            # resumability: continue vs. fresh stepper from the copied state
            if status == "inexact":
                info["resume_skipped"] = True       # values about to leave the exact domain: do not run on
                if collect is not None:
                    collect(site, j, backend, si, wrote_before, npers)
                continue
            try:
                log_b = []
                fm2 = make_python_functions(sites=sites, log=log_b)
                if backend == "interpreter":
                    from dagrt.exec_numpy import NumpyInterpreter
                    fresh = NumpyInterpreter(dag, fm2)
                    for k, v in stepper.context.items():
                        fresh.context[k] = copy.deepcopy(v)
                    fresh.next_phase = stepper.next_phase
                    snap_a = lambda: persistent_of_interp(stepper)   # noqa: E731
                    snap_b = lambda: persistent_of_interp(fresh)     # noqa: E731
                else:
                    fresh = cls(fm2)
                    fresh.set_up(t_start=0, dt_start=0, context={})
                    for a in list(pattrs.values()) + ["t", "dt"]:
                        if hasattr(stepper, a):
                            setattr(fresh, a, copy.deepcopy(getattr(stepper, a)))
                    fresh.next_phase = stepper.next_phase
                    snap_a = lambda: {n: B.norm(getattr(stepper, a)) for n, a in pattrs.items() if hasattr(stepper, a)}  # noqa: E731
                    snap_b = lambda: {n: B.norm(getattr(fresh, a)) for n, a in pattrs.items() if hasattr(fresh, a)}    # noqa: E731
                rn = lambda e: e.condition if type(e).__name__ == "StepError" else type(e).__name__   # noqa: E731
                n_a = len(log_a)
                ha, _ = B.drive(stepper, {"max_steps": 3, "max_events": 30}, snap_a, rn)
                hb, _ = B.drive(fresh, {"max_steps": 3, "max_events": 30}, snap_b, rn)
                d = B.first_difference(ha, hb, "continued stepper", "fresh stepper")
                if d is not None:
                    problems.append("%s: not resumable: %s" % (where, d))
                # each stepper calls the functions it was given (the fresh one is a second instance of the same
                # generated class, with its own function map)
                calls_a, calls_b = [c[0] for c in log_a[n_a:]], [c[0] for c in log_b]
                if calls_a != calls_b:
                    problems.append("%s: not resumable: the continued stepper called its own functions %d time(s), "
                                    "the fresh stepper its own %d time(s)" % (where, len(calls_a), len(calls_b)))
            except Exception as e:
                problems.append("%s: resuming raised %s: %s" % (where, type(e).__name__, str(e)[:100]))
            if collect is not None:
                collect(site, j, backend, si, wrote_before, npers)
    return ("\n".join(problems[:6]) if problems else None), info


def sig_of(msg):
    first = msg.split("\n")[0]
    backend = first.split(",")[0].split(":")[0]
    for key in ("surfaced as", "never reached", "different exception object", "temporaries", "gained attributes",
                "allowed", "disappeared", "next phase", "not resumable", "resuming raised", "CodeBuilder", "cannot map"):
        if key in first:
            return backend + " " + key
    return first[:40]


def replay(sub, case):
    return check_case(case)[0]


def shrink(sub, case):
    from checks.c01 import shrink_method_case
    return shrink_method_case(case, lambda c: replay(sub, c), sig_of, budget=120)


def shard(ctx, n):
    strat = st.fixed_dictionaries({"method": methods(PROFILE),
                                   "plan": st.integers(1, 4).map(lambda k: {"max_steps": k}),
                                   "drive": st.sampled_from(["run", "run", "single_step"])})

    def body(case):
        feats = method_features(case["method"])
        seen = {"n": 0, "nt": 0}

        def collect(site, j, backend, si, wrote_before, npers):
            seen["n"] += 1
            nontriv = (wrote_before or si >= 1) and npers >= 2
            ctx.note({"program": case, "site": site, "index": j, "backend": backend}, nontriv,
                     ["fault_" + backend, "fault_in_step_%d" % min(si, 3), "fault_site_" + base_function(site)[6:],
                      "driven_by_" + case.get("drive", "run")]
                     + (["fault_after_persistent_write"] if wrote_before else []),
                     sample={"site": site, "index": j, "backend": backend, "step": si,
                             "phases": [[p["name"], len(p["body"])] for p in case["method"]["phases"]],
                             "plan": case["plan"]},
                     key=(case, site, j, backend))

        msg, info = check_case(case, collect)
        if "skip" in info:
            ctx.count("generator_slips")
            return
        ctx.count("programs")
        if info["faults"] == 0:
            ctx.count("programs_without_user_calls")
        if msg is not None:
            ctx.fail("c11", case, msg, sig=sig_of(msg))

    hyp_explore(ctx, strat, body, n, "c11")


def run(ctx):
    if ctx.quick:
        ctx.parallel(shard, 16, 100)
    else:
        ctx.parallel(shard, 16, 1500)

"""C13 - distinct IR names map to distinct, legal, stable target identifiers."""
import itertools
import keyword
import re

import hypothesis
from hypothesis import HealthCheck, Phase, settings, strategies as st
from hypothesis.stateful import RuleBasedStateMachine, invariant, rule, run_state_machine_as_test

from vlib.runner import hyp_explore

LEVEL = "exploration"
RULE = ("exhaustive: every ordered pair of names of length <= 2 (quick) / <= 3 (thorough) over the alphabet {a, A, _, ^, 0, "
        "<p>, <state>, y} looked up as variables in a fresh Python and a fresh Fortran name manager (distinct, legal, right "
        "storage class); stateful: Hypothesis rule-based machines per target with rules lookup_var / lookup_function / "
        "make_unique (Fortran) / clear_locals (Python) over an adversarial name pool (case variants, punctuation variants, "
        "lploc_/drtf_/local/global_ look-alikes, keywords, names up to 80 characters), invariants after every step: "
        "stability, pairwise distinctness (case-folded for Fortran, across all maps), legality, distinct from reserved "
        "identifiers, storage class; end-to-end: drawn name sets as temporaries/persistent variables of a program that is "
        "generated for Python (exec + run against the interpreter) and Fortran (gfortran -fsyntax-only). Non-trivial = two "
        "keys whose sanitised forms collide (same make_identifier_from_name image, or equal up to case); distinct by "
        "canonical JSON of the pair / rule history.")
ASSUMPTIONS = ["user names do not start with dagrt_ (excluded by the language documentation)",
               "Fortran 2003 identifier rules: [A-Za-z][A-Za-z0-9_]*, at most 63 characters, case-insensitive",
               "locals of different phase functions may reuse identifiers (clear_locals starts a new scope)"]
BUDGET_S = {"quick": 150, "thorough": 1500}

ALPHABET = ["a", "A", "_", "^", "0", "<p>", "<state>", "y"]

POOL = ["y", "Y", "x", "X1", "x1", "y^", "y*", "y_", "_y", "__y", "y__", "<p>y", "<p>Y", "<state>y", "<state>Y", "<p>y^",
        "<p>y*", "<cond>", "<cond>y", "<func>f", "<func>F", "<func>y^", "<func>y*", "lploc_y", "lploc_Y", "drtf_y", "local",
        "localy", "global_y", "self", "class", "if", "lambda", "1f", "9", "0", "t", "dt", "<t>", "<dt>", "refcnt_y",
        "p_y", "state_y", "<p>p_y", "temp", "tmp", "y_0", "y_1", "Y_0", "lploc_y_0", "<state>y_0", "<p>state_y",
        "a" * 57, "a" * 58, "b" * 80, "<p>" + "c" * 60, "<state>" + "D" * 70, "a" * 57 + "B", "a" * 57 + "b",
        "<>", "<<>>", ":", "a:b", "a.b", "a b", "é", "<func>", "<p>",
        # punctuation / underscores in front of a keyword: the sanitised form, not the name, decides legality
        "_class", "__pass", "^lambda", "<if", "_if", "*class", "<func>_class", "<func>^lambda", "<func>_if",
        "None", "_None", "True", "^True", "<func>None", "<func>^True",
        # persistent names that agree in their first 50+ characters (truncation must leave room for a suffix and
        # for the reference-count prefix)
        "<p>" + "e" * 60, "<p>" + "e" * 61, "<p>" + "e" * 60 + "X", "<state>" + "f" * 64, "<state>" + "f" * 65,
        "<state>" + "F" * 64,
        # names of things the generated module defines itself
        "initialize", "Initialize", "INITIALIZE", "run", "Run", "shutdown", "print_profile", "<func>initialize", "<func>run",
        "set_up", "run_single_step", "next_phase", "StateComputed", "t", "dt", "numpy", "_numpy", "_functions"]

PY_RESERVED = {"self.t", "self.dt", "self.next_phase", "self._numpy", "self._functions", "self.phase_transition_table",
               "self.StateComputed", "self.StepCompleted", "self.StepFailed", "self.run", "self.set_up",
               "self.run_single_step", "self", "evt", "cur_phase", "n_steps", "t_end", "max_steps", "phase_func",
               "function_map", "context", "t_start", "dt_start", "numpy"}
F_RESERVED = {"dagrt_state", "dagrt_ierr", "dagrt_stderr", "dagrt_t", "dagrt_dt", "dagrt_next_phase", "initialize", "run",
              "shutdown", "print_profile", "dagrt_state_type", "dagrt_nan", "dagrt_nan_str"}


def is_persistent(name):
    return name in ("<t>", "<dt>") or name.startswith(("<state>", "<p>", "<ret_time_id>", "<ret_time>", "<ret_state>"))


def python_legal(ident):
    parts = ident.split(".")
    return all(p.isidentifier() and not keyword.iskeyword(p) for p in parts)


def fortran_legal(ident):
    return re.fullmatch(r"[A-Za-z][A-Za-z0-9_]*", ident) is not None and len(ident) <= 63


def collide(a, b):
    from dagrt.codegen.utils import make_identifier_from_name
    ia, ib = make_identifier_from_name(a), make_identifier_from_name(b)
    return a != b and (ia == ib or ia.lower() == ib.lower())


# ---------------------------------------------------------------- one-shot checks on a list of lookups

def check_python(ops):
    """ops: list of ("var"|"func"|"clear", name).  Returns message or None."""
    from dagrt.codegen.python import PythonNameManager
    try:
        nm = PythonNameManager()
        other = PythonNameManager()
    except Exception as e:
        return "Python: creating a name manager raised %s: %s" % (type(e).__name__, e)
    # a second, separate manager that is alive at the same time and has already mapped some of the names: what it
    # did must not show in the first one
    for kind, name in ops[::2]:
        try:
            if kind == "var":
                other[name]
            elif kind == "func":
                other.name_function(name)
        except Exception:
            pass
    first = {}
    local_scope = 0
    for kind, name in ops:
        if kind == "clear":
            nm.clear_locals()
            local_scope += 1
            continue
        try:
            ident = nm[name] if kind == "var" else nm.name_function(name)
        except Exception as e:
            return "Python: lookup of %s %r raised %s: %s" % (kind, name, type(e).__name__, e)
        scope = local_scope if (kind == "var" and not is_persistent(name)) else -1
        key = (kind, name, scope)
        if key in first and first[key] != ident:
            return "Python: %s %r mapped to %s, earlier to %s" % (kind, name, ident, first[key])
        first[key] = ident
        if not python_legal(ident):
            return "Python: %s %r is mapped to %r, which is not a legal identifier" % (kind, name, ident)
        if kind == "var":
            if is_persistent(name) and not (ident.startswith("self.global_") or ident in ("self.t", "self.dt")):
                return "Python: persistent %r is mapped to %r (not instance storage)" % (name, ident)
            if not is_persistent(name) and ident.startswith("self."):
                return "Python: per-step variable %r is mapped to instance storage %r" % (name, ident)
        if ident in PY_RESERVED and not (name in ("<t>", "<dt>") and kind == "var"):
            return "Python: %s %r is mapped to the reserved identifier %r" % (kind, name, ident)
        for (k2, n2, s2), i2 in first.items():
            if (k2, n2, s2) == key or i2 != ident:
                continue
            if s2 != -1 and scope != -1 and s2 != scope:
                continue    # locals of different phase functions
            return "Python: %s %r and %s %r are both mapped to %r" % (kind, name, k2, n2, ident)
    return None


def check_fortran(ops):
    """ops: list of ("var"|"func"|"unique", name)."""
    from dagrt.codegen.fortran import FortranNameManager
    try:
        nm = FortranNameManager()
        other = FortranNameManager()         # (see check_python)
    except Exception as e:
        return "Fortran: creating a name manager raised %s: %s" % (type(e).__name__, e)
    for kind, name in ops[::2]:
        try:
            if kind == "var":
                other[name]
            elif kind == "func":
                other.name_function(name)
        except Exception:
            pass
    first = {}
    first_rc, issued_rc = {}, {}
    issued = {}     # lower-cased bare identifier -> description
    for kind, name in ops:
        try:
            if kind == "var":
                ident = nm[name]
            elif kind == "func":
                ident = nm.name_function(name)
            else:
                ident = nm.make_unique_fortran_name(name)
        except Exception as e:
            return "Fortran: lookup of %s %r raised %s: %s" % (kind, name, type(e).__name__, e)
        key = (kind, name)
        if kind != "unique":
            if key in first and first[key] != ident:
                return "Fortran: %s %r mapped to %s, earlier to %s" % (kind, name, ident, first[key])
            known = key in first
            first[key] = ident
        else:
            known = False
        bare = ident
        if kind == "var":
            if is_persistent(name):
                if not ident.startswith("dagrt_state%"):
                    return "Fortran: persistent %r is mapped to %r (not state storage)" % (name, ident)
                bare = ident[len("dagrt_state%"):]
            elif "%" in ident:
                return "Fortran: per-step variable %r is mapped to state storage %r" % (name, ident)
        if not fortran_legal(bare):
            return "Fortran: %s %r is mapped to %r, which is not a legal identifier (%s)" % (
                kind, name, bare, "%d characters" % len(bare) if len(bare) > 63 else "syntax")
        if kind == "var" and name not in ("<t>", "<dt>"):
            # the identifier of the variable's reference count (user-type variables get one)
            try:
                rc = nm.name_refcount(name)
            except Exception as e:
                return "Fortran: name_refcount(%r) raised %s: %s" % (name, type(e).__name__, e)
            rc_bare = rc[len("dagrt_state%"):] if rc.startswith("dagrt_state%") else rc
            if not fortran_legal(rc_bare):
                return "Fortran: reference count of %s %r is %r, which is not a legal identifier (%s)" % (
                    kind, name, rc_bare, "%d characters" % len(rc_bare) if len(rc_bare) > 63 else "syntax")
            if key in first_rc and first_rc[key] != rc:
                return "Fortran: reference count of %r mapped to %s, earlier to %s" % (name, rc, first_rc[key])
            first_rc[key] = rc
            low_rc = rc.lower()       # a component of dagrt_state and a local variable live in different name spaces
            if low_rc in issued_rc and issued_rc[low_rc] != key:
                return "Fortran: reference counts of %r and %r are both %r" % (name, issued_rc[low_rc][1], rc_bare)
            issued_rc[low_rc] = key
        if bare.lower() in F_RESERVED and not (kind == "var" and name in ("<t>", "<dt>")):
            return "Fortran: %s %r is mapped to the reserved identifier %r" % (kind, name, bare)
        if not known:
            low = bare.lower()
            if low in issued and issued[low] != key:
                return "Fortran: %s %r and %s %r are both mapped to %r (identifiers are case-insensitive)" % (
                    kind, name, issued[low][0], issued[low][1], bare)
            issued[low] = key
    return None


def sig_of(msg):
    tgt = msg.split(":")[0]
    for key in ("raised", "earlier to", "not a legal identifier", "not instance storage", "not state storage",
                "to instance storage", "to state storage", "reserved identifier", "both mapped", "does not compile",
                "differs", "generated module"):
        if key in msg:
            extra = ""
            if key == "not a legal identifier":
                extra = " (length)" if "characters" in msg else " (syntax) " + msg.split(" ")[1]
            return tgt + " " + key + extra
    return msg[:40]


def replay(sub, case):
    if sub == "python":
        return check_python([tuple(o) for o in case["ops"]])
    if sub == "fortran":
        return check_fortran([tuple(o) for o in case["ops"]])
    if sub == "e2e":
        return check_e2e(case)
    return None


def shrink(sub, case):
    if sub not in ("python", "fortran"):
        return case
    from vlib.shrink import ddmin_list
    sig = sig_of(replay(sub, case) or "")

    def still(ops):
        m = replay(sub, {"ops": ops})
        return m is not None and sig_of(m) == sig
    return {"ops": ddmin_list(case["ops"], still, [400])}


# ---------------------------------------------------------------- exhaustive pairs

def short_names(maxlen):
    out = []
    for n in range(1, maxlen + 1):
        for t in itertools.product(ALPHABET, repeat=n):
            out.append("".join(t))
    return sorted(set(out))


def exhaustive_shard(ctx, maxlen):
    names = short_names(maxlen)
    excl_case = ctx.is_excluded("fortran_case_collision")
    k = 0
    for a in names:
        for b in names:
            k += 1
            if k % ctx.nshards != ctx.shard or a == b:
                continue
            ops = [("var", a), ("var", b), ("var", a)]
            nt = collide(a, b)
            ctx.note({"pair": [a, b]}, nt, ["exhaustive_pair"])
            ctx.count("exhaustive_pairs")
            m = check_python(ops)
            if m is not None:
                ctx.fail("python", {"ops": ops}, m, sig=sig_of(m))
            if excl_case and a.lower() == b.lower():
                ctx.count("excluded_by_known_finding")
                continue
            m = check_fortran(ops)
            if m is not None:
                ctx.fail("fortran", {"ops": ops}, m, sig=sig_of(m))


# ---------------------------------------------------------------- stateful machines

def name_strategy(ctx_excl):
    pool = list(POOL)
    if "long_names" in ctx_excl:
        pool = [n for n in pool if len(n) <= 40]
    base = st.one_of(st.sampled_from(pool), st.sampled_from(pool),
                     st.lists(st.sampled_from(ALPHABET + ["b", "B", "*", "1"]), min_size=1, max_size=5).map("".join))
    return base


def machine_shard(ctx, n_machines, steps):
    excl = set(ctx.excluded)

    def filt(kind, name, target):
        if target == "fortran" and "fortran_case_collision" in excl:
            return True
        return True

    names = name_strategy(excl)

    def make_machine(target):
        class M(RuleBasedStateMachine):
            def __init__(self):
                RuleBasedStateMachine.__init__(self)
                self.ops = []

            @rule(name=names)
            def lookup_var(self, name):
                self.ops.append(("var", name))

            @rule(name=names)
            def lookup_function(self, name):
                self.ops.append(("func", name))

            if target == "python":
                @rule()
                def clear_locals(self):
                    self.ops.append(("clear", ""))
            else:
                @rule(name=names)
                def make_unique(self, name):
                    self.ops.append(("unique", name))

            @rule()
            def repeat_earlier(self):
                if self.ops:
                    self.ops.append(self.ops[len(self.ops) // 2])

            def teardown(self):
                ops = list(self.ops)
                if target == "fortran":
                    if "fortran_case_collision" in excl:
                        seen = {}
                        keep = []
                        for k, nme in ops:
                            from dagrt.codegen.utils import make_identifier_from_name
                            low = make_identifier_from_name(nme).lower()
                            if low in seen and seen[low] != nme:
                                ctx.count("excluded_by_known_finding")
                                continue
                            seen[low] = nme
                            keep.append((k, nme))
                        ops = keep
                    if "fortran_function_names" in excl:
                        ops = [(k, nme) for k, nme in ops if k != "func"]
                if target == "python" and "python_function_keywords" in excl:
                    from dagrt.codegen.utils import make_identifier_from_name
                    ops = [(k, nme) for k, nme in ops if not (k == "func" and (
                        keyword.iskeyword(make_identifier_from_name(nme)) or not make_identifier_from_name(nme)[:1].isalpha()
                        and not make_identifier_from_name(nme).startswith("_")))]
                names_used = [nme for k, nme in ops if k != "clear"]
                nt = any(collide(a, b) for a, b in itertools.combinations(sorted(set(names_used)), 2))
                ctx.note({"target": target, "ops": [list(o) for o in ops]}, nt, ["machine_" + target])
                m = check_python(ops) if target == "python" else check_fortran(ops)
                if m is not None:
                    ctx.fail(target, {"ops": [list(o) for o in ops]}, m, sig=sig_of(m))
        return M

    for target in ("python", "fortran"):
        M = hypothesis.seed(ctx.shard_seed("machine", target))(make_machine(target))
        run_state_machine_as_test(M, settings=settings(
            max_examples=n_machines, stateful_step_count=steps, database=None, deadline=None, derandomize=False,
            report_multiple_bugs=False, phases=[Phase.generate], suppress_health_check=list(HealthCheck)))


# ---------------------------------------------------------------- end to end

def check_e2e(case):
    """A program whose temporaries / persistent variables / function carry the drawn names."""
    import ast
    from pymbolic import var
    from dagrt.language import CodeBuilder, DAGCode
    temps, pers = case["temps"], case["pers"]
    with CodeBuilder(name="main") as cb:
        total = 0
        k = 1
        for n in temps:
            cb(var(n), k + 0.5)
            k += 1
        for n in pers:
            cb(var("<p>" + n), k + 0.5)
            k += 1
        expr = var("<state>out")
        for n in temps:
            expr = expr + var(n)
        for n in pers:
            expr = expr + var("<p>" + n)
        cb(var("<state>out"), expr)
    from dagrt.language import ExecutionPhase
    dag = DAGCode({"main": ExecutionPhase(name="main", next_phase="main", statements=list(cb.statements))}, "main")
    want = sum(i + 1.5 for i in range(len(temps) + len(pers)))
    # Python
    from dagrt.codegen import PythonCodeGenerator
    try:
        cg = PythonCodeGenerator(class_name="Method")
        text = cg(dag)
        ast.parse(text)
        ns = {}
        exec(text, ns)
        obj = ns["Method"]({})
        obj.set_up(t_start=0, dt_start=1, context={"out": 0})
        list(obj.run(max_steps=1))
        got = getattr(obj, cg._name_manager["<state>out"][5:])
        if got != want:
            return "Python: generated module computes %r for the sum of %d distinctly named variables, expected %r" % (
                got, len(temps) + len(pers), want)
    except SyntaxError as e:
        return "Python: generated module does not compile: %s" % e
    except Exception as e:
        return "Python: generated module raised %s: %s" % (type(e).__name__, str(e)[:100])
    # Fortran (syntax/semantic check by the compiler)
    if case.get("fortran", True):
        import os
        import shutil
        import subprocess
        import tempfile
        import dagrt.codegen.fortran as f
        from vlib import kinds as K
        try:
            ftext, _ = K.quiet(f.CodeGenerator("m", user_type_map={}), dag)
        except Exception as e:
            return "Fortran: generator raised %s: %s" % (type(e).__name__, str(e)[:100])
        d = tempfile.mkdtemp(prefix="verif-c13-", dir=os.environ.get("TMPDIR", "/tmp"))
        try:
            with open(os.path.join(d, "m.f90"), "w") as fh:
                fh.write(ftext)
            p = subprocess.run(["gfortran", "-fsyntax-only", "-ffree-line-length-none", "-w", "m.f90"], cwd=d,
                               capture_output=True, text=True, timeout=120)
            if p.returncode != 0:
                errs = [l for l in p.stderr.split("\n") if "Error" in l]
                return "Fortran: generated module does not compile: %s" % " | ".join(errs[:2])[:300]
        finally:
            shutil.rmtree(d, ignore_errors=True)
    return None


def e2e_shard(ctx, n):
    excl = set(ctx.excluded)
    ident = st.one_of(
        st.sampled_from(["y", "Y", "y^", "y*", "y_", "_y", "x1", "X1", "tmp", "temp", "lploc_y", "local", "localy", "p_y",
                         "state_out", "out", "OUT", "y_0", "a" * 30, "a" * 30 + "B", "self", "numpy", "t", "dt", "T"]),
        st.lists(st.sampled_from(["a", "A", "_", "^", "0", "y", "b"]), min_size=1, max_size=4).map("".join).filter(
            lambda s: not s.startswith("dagrt_")))
    strat = st.fixed_dictionaries({"temps": st.lists(ident, unique=True, min_size=1, max_size=5),
                                   "pers": st.lists(ident, unique=True, min_size=0, max_size=4)})

    def body(case):
        names = case["temps"] + ["<p>" + n for n in case["pers"]]
        if "fortran_case_collision" in excl:
            from dagrt.codegen.utils import make_identifier_from_name
            lows = [make_identifier_from_name(n).lower() for n in case["temps"]]
            lows2 = [make_identifier_from_name("<p>" + n).lower() for n in case["pers"]]
            if len(set(lows)) != len(lows) or len(set(lows2)) != len(lows2):
                case = dict(case, fortran=False)
                ctx.count("excluded_by_known_finding")
        nt = any(collide(a, b) for a, b in itertools.combinations(names, 2))
        ctx.note(case, nt, ["e2e"])
        m = check_e2e(case)
        if m is not None:
            ctx.fail("e2e", case, m, sig=sig_of(m))

    hyp_explore(ctx, strat, body, n, "e2e")


def run(ctx):
    maxlen = 2 if ctx.quick else 3
    ctx.parallel(exhaustive_shard, 16, maxlen)
    n = len(short_names(maxlen))
    ctx.extra["exhaustive"] = ctx.extra.get("exhaustive_pairs") == n * (n - 1)
    ctx.extra["exhaustive_space"] = "%d ordered pairs of distinct names of length <= %d over an 8-symbol alphabet, both targets" % (
        n * (n - 1), maxlen)
    if ctx.quick:
        ctx.parallel(machine_shard, 16, 60, 40)
        ctx.parallel(e2e_shard, 16, 8)
    else:
        ctx.parallel(machine_shard, 16, 3000, 40)
        ctx.parallel(e2e_shard, 16, 150)

"""C03 - compiled Fortran stepper computes the same states as the interpreter."""
from fractions import Fraction

from hypothesis import strategies as st

from vlib import backends as B
from vlib import fharness as F
from vlib.progen import count_ops, method_features, methods
from vlib.refexec import is_persistent, make_python_functions, run_reference
from vlib.runner import HarnessError, hyp_explore

LEVEL = "exploration"
RULE = ("Hypothesis-generated builder programs in the Fortran-supported subset (real scalars, integer-valued bounds, flags, "
        "arrays from array()/matmul/transpose/whole-array expressions with counted loops incl. zero-trip, min/max, user-type vectors of length 1-3, guards "
        "incl. !=, nested conditional expressions, bare powers, len/isnan/elementwise_abs, registered user functions with "
        "CallCode templates and keyword arguments, 0/1/2 results, 1-3 phases with fail/switch/restart/raise) are emitted "
        "by fortran.CodeGenerator, compiled with gfortran together with a generated driver that initialises the state, "
        "calls run() 1-5 times and dumps every field of dagrt_state_type after each call (ES25.17E3). The dump must equal "
        "the NumpyInterpreter's persistent variables, last yielded (value, time, time id) per component and next phase after "
        "the corresponding step, exactly; the module must compile, exit status 0, stderr empty except for the program's own "
        "Raise. Non-trivial = compiled and ran, and the program has a user-type variable, loop, guard, conditional "
        "expression, >= 2 phases or an early exit; distinct by canonical JSON of (program, state, steps). Two further "
        "generators: methods over two plain-array user types of different lengths with the same built-ins (len, norm_2, "
        "elementwise_abs) and operations applied to both; and svd / linear_solve on small well-conditioned matrices whose "
        "arguments are read again after the call (check sums exact, results within 1e-9 relative).")
ASSUMPTIONS = ["exact (dyadic) values; a run is compared up to the first step in which the reference executor leaves the exact domain",
               "programs on which interpreter and reference executor disagree are attributed to C01 and skipped (counted)",
               "every persistent variable is assigned somewhere (kind inference needs that) and initialised through initialize()",
               "array aliasing, complex values, built-ins without a Fortran implementation and calls inside yielded expressions "
               "(fortran.CodeGenerator raises 'bare Call encountered' for them) are outside the generated subset"]
BUDGET_S = {"quick": 240, "thorough": 2400}

PROFILE = dict(
    max_ops=8, minmax=True, alias_arrays=False, whole_array_ops=True, matmul_only=True,
    builtin_set=["<builtin>len", "<builtin>elementwise_abs"], yield_uvec_only=True,
    assign_all_state=True, dead_code=False, yield_call_free=True, reuse_ids=True,
    extra_kinds=("arrwhole", "transpose", "matmul", "newarr", "arrwrite"),
)
# features switched off by known findings
FEATURE_PROFILE = {
    "subscript_whole_array_results": {"subscript_whole_array_results": False},
    "minmax_loop_counter": {"minmax_loop_counter": False},
}


def profile_for(ctx):
    p = dict(PROFILE)
    for feat, override in FEATURE_PROFILE.items():
        if ctx.is_excluded(feat):
            p.update(override)
    return p


def interpreter_steps(dag, method, nsteps):
    """Per run_single_step: dict(state, next_phase, yields {component: (value, t, time_id)}, raised)."""
    from dagrt.exec_numpy import FailStepException, NumpyInterpreter, TransitionEvent
    interp = NumpyInterpreter(dag, make_python_functions())
    interp.set_up(t_start=method["t0"], dt_start=method["dt0"], context=B.initial_context(method))
    out = []
    last = {}
    for _ in range(nsteps):
        rec = {"phase": interp.next_phase, "failed": False}
        try:
            for evt in interp.run_single_step():
                if type(evt).__name__ == "StateComputed":
                    last[evt.component_id] = (B.norm(evt.state_component), B.norm(evt.t), evt.time_id)
        except FailStepException:
            rec["failed"] = True
        except TransitionEvent as e:
            interp.next_phase = e.next_phase
        except (B.MyError, B.OtherError) as e:
            rec["raised"] = type(e).__name__
        except Exception as e:
            rec["error"] = "%s: %s" % (type(e).__name__, str(e)[:80])
        rec["state"] = {n: B.norm(v) for n, v in interp.context.items() if is_persistent(n)}
        rec["next_phase"] = interp.next_phase
        rec["yields"] = dict(last)
        out.append(rec)
        if "raised" in rec or "error" in rec:
            break
    return out


def reference_steps(method, nsteps):
    from vlib.refexec import Inexact, RefError, RefMachine
    from vlib import tree as T
    m = RefMachine(method)
    out = []
    status = "done"
    for _ in range(nsteps):
        try:
            ev, outcome = m.single_step()
            st_ = m.persistent_state()
        except Inexact:
            status = "inexact"
            break
        except (RefError, T.UndefinedRead, T.EvalError, ZeroDivisionError, OverflowError, TypeError, AttributeError) as e:
            status = "slip:" + type(e).__name__
            break
        out.append({"state": st_, "next_phase": m.next_phase, "outcome": outcome})
        if outcome not in ("completed", "failed"):
            break
    return out, status


def same_value(a, b):
    """interpreter value (normalised) vs Fortran dump value."""
    if isinstance(b, tuple) and b[0] == "vec":
        return isinstance(a, tuple) and a[0] == "vec" and list(a[1]) == list(b[1])
    if isinstance(a, tuple) and a[0] == "vec":
        return False
    if isinstance(a, bool) or isinstance(b, bool):
        return bool(a) == bool(b) and isinstance(a, bool) == isinstance(b, bool)
    return a == b


def check_case(case, sanitize=False):
    method, nsteps = case["method"], case["steps"]
    info = {}
    ref, rstatus = reference_steps(method, nsteps)
    if rstatus.startswith("slip"):
        info["skip"] = rstatus
        return None, info
    if rstatus == "inexact":
        nsteps = len(ref)
        info["truncated"] = True
        if nsteps == 0:
            info["skip"] = "inexact in the first step"
            return None, info
    try:
        dag = B.build_dag(method)
    except Exception as e:
        return "CodeBuilder raised %s: %s" % (type(e).__name__, e), info
    isteps = interpreter_steps(dag, method, nsteps)
    pn = B.persistent_names(method)
    for k, (r, i) in enumerate(zip(ref, isteps)):
        if "error" in i:
            info["skip"] = "interpreter error (C01's business): " + i["error"]
            return None, info
        si = {n: v for n, v in i["state"].items() if n in pn}
        sr = {n: v for n, v in r["state"].items() if n in pn}
        if si != sr or i["next_phase"] != r["next_phase"]:
            info["skip"] = "interpreter and reference disagree (C01's business)"
            return None, info
    try:
        if case.get("instrumented"):
            # non-default generator options: profiling counters/timers around phases and functions
            cg, text = F.generate(dag, method["ulen"], emit_instrumentation=True, timing_function="second")
        else:
            cg, text = F.generate(dag, method["ulen"])
    except Exception as e:
        return "fortran.CodeGenerator raised %s: %s" % (type(e).__name__, str(e)[:160]), info
    try:
        fields = F.parse_state_type(text)
    except HarnessError:
        raise
    nm = cg.name_manager
    init_args = [("dagrt_t", method["t0"]), ("dagrt_dt", method["dt0"])]
    for n, v in sorted(method["state"].items()):
        full = "<state>" + n
        if full in pn:
            init_args.append((nm.name_global(full), v))
    init_args = [(k, v) for k, v in init_args if k in fields]
    driver = F.driver_source("m", fields, init_args, nsteps)
    uses_lapack = False
    res = F.compile_and_run(text, driver, sanitize=sanitize, libs=("lapack", "blas") if uses_lapack else ())
    info["compiled"] = res["compile_ok"]
    if not res["compile_ok"]:
        errs = [l for l in res["compile_out"].split("\n") if "Error" in l or "error" in l]
        return "the generated module does not compile: %s" % (" | ".join(errs[:3]) or res["compile_out"][-300:]), info
    if res["rc"] == "timeout":
        return "the compiled stepper did not finish within 60 s", info
    fsteps, done = F.parse_dump(res["stdout"])
    raised = [i.get("raised") for i in isteps if "raised" in i]
    stderr = res["stderr"].strip()
    if raised:
        if raised[0] not in stderr:
            return "the interpreter raises %s but the Fortran program printed %r on stderr" % (raised[0], stderr[:200]), info
    else:
        if stderr:
            return "Fortran program wrote to stderr: %s" % stderr[:300], info
        if res["rc"] != 0 or not done:
            return "Fortran program ended with status %s%s" % (res["rc"], "" if done else " before shutdown completed"), info
    phase_index = {n: k for k, n in enumerate(sorted(dag.phases))}
    time_index = {}
    from dagrt.codegen.analysis import collect_time_ids_from_dag
    for k, tid in enumerate(sorted(collect_time_ids_from_dag(dag))):
        time_index[tid] = k
    info["steps_compared"] = 0
    for k, i in enumerate(isteps):
        if "raised" in i:
            break
        if k >= len(fsteps):
            return "Fortran program dumped %d steps, interpreter ran %d" % (len(fsteps), len(isteps)), info
        fs = fsteps[k]
        if fs.get("dagrt_next_phase") != phase_index[i["next_phase"]]:
            inv = {v: n for n, v in phase_index.items()}
            return "after run() call %d: next phase %s in Fortran, %s in the interpreter" % (
                k + 1, inv.get(fs.get("dagrt_next_phase"), fs.get("dagrt_next_phase")), i["next_phase"]), info
        for n, v in sorted(i["state"].items()):
            if n not in pn:
                continue
            fname = nm.name_global(n)
            if fname not in fs:
                return "after run() call %d: %s (%s) is not in the state dump" % (k + 1, n, fname), info
            fv = fs[fname]
            if fv is None:
                return "after run() call %d: %s is unallocated in Fortran, %s in the interpreter" % (k + 1, n, B.show(v)), info
            if not same_value(v, fv):
                return "after run() call %d: %s is %s in Fortran, %s in the interpreter" % (
                    k + 1, n, B.show(fv[:2]) if isinstance(fv, tuple) else B.show(fv), B.show(v)), info
        for comp, (val, t, tid) in sorted(i["yields"].items()):
            for what, want in (("state", val), ("time", t), ("time_id", Fraction(time_index[tid]))):
                fname = nm.name_global("<ret_%s>%s" % (what, comp))
                fv = fs.get(fname)
                if fv is None or not same_value(want, fv):
                    return "after run() call %d: returned %s of component %s is %s in Fortran, %s in the interpreter" % (
                        k + 1, what, comp, B.show(fv[:2]) if isinstance(fv, tuple) else B.show(fv), B.show(want)), info
        if case.get("instrumented"):
            # the profile counters the generated module documents
            for pname in dag.phases:
                runs = sum(1 for j in isteps[:k + 1] if j["phase"] == pname)
                fails = sum(1 for j in isteps[:k + 1] if j["phase"] == pname and j["failed"])
                for field, want in (("dagrt_phase_%s_count" % pname, runs), ("dagrt_phase_%s_failures" % pname, fails)):
                    if fs.get(field) != want:
                        return "after run() call %d: profile counter %s is %s, but the interpreter ran %d %s" % (
                            k + 1, field, fs.get(field), want, "failed steps of it" if "failures" in field else "steps of that phase"), info
        info["steps_compared"] += 1
    return None, info


# ---------------------------------------------------------------- two user types of different sizes

def check_twoplain(case):
    """Methods over two plain-array user types of different lengths (generator shared with C12): the same
    built-ins and operations are applied to values of both types; every persistent variable is compared after
    each run() call."""
    import numpy as np
    from checks import c12
    from dagrt.exec_numpy import FailStepException, NumpyInterpreter, TransitionEvent
    info = {}
    try:
        dag = c12.twotype_build(case)
    except Exception as e:
        return "CodeBuilder raised %s: %s" % (type(e).__name__, e), info
    a, b = case["nested"], case["plain"]
    fm = {"<func>f_" + a: (lambda t, y: -2 * y), "<func>f_" + b: (lambda t, y: -3 * y)}
    interp = NumpyInterpreter(dag, fm)
    a0 = [1.0] * case["len_nested"]
    if case.get("nan_first") and len(a0) > 1:
        a0[0] = float("nan")
    interp.set_up(t_start=0.0, dt_start=1.0, context={a: np.array(a0), b: 2 * np.ones(case["len_plain"])})
    isteps = []
    for _ in range(case["steps"]):
        try:
            for evt in interp.run_single_step():
                pass
        except FailStepException:
            pass
        except TransitionEvent as e:
            interp.next_phase = e.next_phase
        except Exception as e:
            info["skip"] = "interpreter error: %s: %s" % (type(e).__name__, str(e)[:60])
            return None, info
        isteps.append({n: B.norm(v) for n, v in interp.context.items() if is_persistent(n)})
    try:
        cg, text = c12.twotype_generate(case, dag)
    except Exception as e:
        return "fortran.CodeGenerator raised %s: %s" % (type(e).__name__, str(e)[:160]), info
    fields = F.parse_state_type(text)
    nm = cg.name_manager
    init_args = [("dagrt_t", 0.0), ("dagrt_dt", 1.0),
                 (nm.name_global("<state>" + a), a0),
                 (nm.name_global("<state>" + b), [2.0] * case["len_plain"])]
    init_args = [(k, v) for k, v in init_args if k in fields]
    shapes = {nm.name_global("<state>" + a): tuple(case["shape2d"])} if case.get("shape2d") else None
    res = F.compile_and_run(text, F.driver_source("m", fields, init_args, case["steps"], shapes=shapes))
    info["compiled"] = res["compile_ok"]
    if not res["compile_ok"]:
        errs = [l for l in res["compile_out"].split("\n") if "Error" in l or "error" in l]
        return "the generated module does not compile: %s" % (" | ".join(errs[:3]) or res["compile_out"][-300:]), info
    if res["rc"] == "timeout":
        return "the compiled stepper did not finish within 60 s", info
    if res["stderr"].strip():
        return "Fortran program wrote to stderr: %s" % res["stderr"].strip()[:300], info
    fsteps, done = F.parse_dump(res["stdout"])
    if res["rc"] != 0 or not done or len(fsteps) != len(isteps):
        return "Fortran program ended with status %s after %d of %d steps" % (res["rc"], len(fsteps), len(isteps)), info
    for k, (ist, fs) in enumerate(zip(isteps, fsteps)):
        for n, v in sorted(ist.items()):
            fname = nm.name_global(n)
            fv = fs.get(fname)
            if fname not in fs:
                return "after run() call %d: %s (%s) is not in the state dump" % (k + 1, n, fname), info
            if n.startswith("<p>n_") and fv is not None and not isinstance(fv, tuple) and not isinstance(v, tuple):
                # results of norm_2: a square root, computed by different code on the two sides
                if abs(float(fv) - float(v)) <= 1e-9 * max(1.0, abs(float(v))):
                    continue
            if fv is None or not same_value(v, fv):
                return "after run() call %d: %s is %s in Fortran, %s in the interpreter" % (
                    k + 1, n, B.show(fv[:2]) if isinstance(fv, tuple) else B.show(fv), B.show(v)), info
    info["steps_compared"] = len(isteps)
    return None, info


def twoplain_shard(ctx, n):
    from checks import c12

    def body(case):
        msg, info = check_twoplain(case)
        if "skip" in info:
            ctx.count("twoplain skipped")
            ctx.note(case, False, ["twoplain_skipped"])
            return
        kinds_ = {op[0] for op in c12._tt_walk(case["body"])}
        ctx.note(case, "norm" in kinds_ or "abs" in kinds_, ["twoplain_run"] + ["twoplain_has_" + k for k in sorted(kinds_)])
        ctx.count("steps_compared", info.get("steps_compared", 0))
        if msg is not None:
            ctx.fail("twoplain", case, msg, sig="twoplain " + sig_of(msg))

    hyp_explore(ctx, c12.twotype_cases(plain2=True), body, n, "twoplain")


# ---------------------------------------------------------------- LAPACK-backed built-ins (inexact: tolerance)

@st.composite
def lapack_cases(draw):
    kind = draw(st.sampled_from(["svd", "svd", "solve"]))
    if kind == "svd":
        rows, cols = draw(st.sampled_from([(2, 2), (3, 2), (2, 3), (3, 3), (1, 2), (2, 1)]))
        vals = [draw(st.integers(-4, 4)) for _ in range(rows * cols)]
        vals[0] = vals[0] or 3
        return {"kind": kind, "rows": rows, "cols": cols, "a": vals, "steps": draw(st.integers(1, 2)),
                "read_first": draw(st.booleans())}
    n = draw(st.integers(1, 3))
    k = draw(st.integers(1, 2))
    a = [draw(st.integers(-2, 2)) for _ in range(n * n)]
    for d in range(n):
        a[d * n + d] = 8 + d            # diagonally dominant: well conditioned
    b = [draw(st.integers(-4, 4)) for _ in range(n * k)]
    return {"kind": kind, "rows": n, "cols": n, "a": a, "b": b, "bcols": k, "steps": draw(st.integers(1, 2)),
            "read_first": draw(st.booleans())}


def lapack_build(case):
    from dagrt.language import CodeBuilder, DAGCode
    na = len(case["a"])
    with CodeBuilder(name="main") as cb:
        cb("a", "<builtin>array(%d)" % na)
        for i, v in enumerate(case["a"]):
            cb("a[%d]" % i, repr(float(v) + 0.5 * (i % 2)))
        if case["kind"] == "solve":
            nb = len(case["b"])
            cb("b", "<builtin>array(%d)" % nb)
            for i, v in enumerate(case["b"]):
                cb("b[%d]" % i, repr(float(v) + 0.25))
        cb("<p>chk_a", "0")
        cb("<p>chk_b", "0")
        if case["read_first"]:
            cb("<p>chk_a", "<p>chk_a + (i + 1)*a[i]", loops=[("i", 0, na)])
        if case["kind"] == "svd":
            cb(("u", "sigma", "vt"), "<builtin>svd(a, %d)" % case["cols"])
            cb("<p>res", "sigma[0]")
            cb("<p>res2", "<builtin>norm_2(sigma)")
        else:
            cb("x", "<builtin>linear_solve(a, b, %d, %d)" % (case["cols"], case["bcols"]))
            cb("<p>res", "x[0]")
            cb("<p>res2", "<builtin>norm_2(x)")
            cb("<p>chk_b", "<p>chk_b + (i + 2)*b[i]", loops=[("i", 0, len(case["b"]))])
        # the arguments are read again after the call: they must be what they were
        cb("<p>chk_a", "<p>chk_a + (i + 1)*a[i]", loops=[("i", 0, na)])
        cb("<t>", "<t> + <dt>")
    return DAGCode.from_phases_list([cb.as_execution_phase("main")], "main")


def check_lapack(case):
    from dagrt.exec_numpy import NumpyInterpreter
    info = {}
    try:
        dag = lapack_build(case)
    except Exception as e:
        return "CodeBuilder raised %s: %s" % (type(e).__name__, e), info
    interp = NumpyInterpreter(dag, {})
    interp.set_up(t_start=0.0, dt_start=1.0, context={})
    isteps = []
    for _ in range(case["steps"]):
        try:
            for evt in interp.run_single_step():
                pass
        except Exception as e:
            info["skip"] = "interpreter error: %s: %s" % (type(e).__name__, str(e)[:60])
            return None, info
        isteps.append({n: interp.context[n] for n in ("<p>chk_a", "<p>chk_b", "<p>res", "<p>res2")})
    try:
        cg, text = F.generate(dag, 1)
    except Exception as e:
        return "fortran.CodeGenerator raised %s: %s" % (type(e).__name__, str(e)[:160]), info
    fields = F.parse_state_type(text)
    nm = cg.name_manager
    init_args = [(k, v) for k, v in (("dagrt_t", 0.0), ("dagrt_dt", 1.0)) if k in fields]
    res = F.compile_and_run(text, F.driver_source("m", fields, init_args, case["steps"]), libs=("lapack", "blas"))
    info["compiled"] = res["compile_ok"]
    if not res["compile_ok"]:
        errs = [l for l in res["compile_out"].split("\n") if "Error" in l or "error" in l]
        return "the generated module does not compile: %s" % (" | ".join(errs[:3]) or res["compile_out"][-300:]), info
    if res["rc"] == "timeout":
        return "the compiled stepper did not finish within 60 s", info
    if res["stderr"].strip():
        return "Fortran program wrote to stderr: %s" % res["stderr"].strip()[:300], info
    fsteps, done = F.parse_dump(res["stdout"])
    if res["rc"] != 0 or not done or len(fsteps) != len(isteps):
        return "Fortran program ended with status %s after %d of %d steps" % (res["rc"], len(fsteps), len(isteps)), info
    for k, (ist, fs) in enumerate(zip(isteps, fsteps)):
        for n, v in sorted(ist.items()):
            fv = fs.get(nm.name_global(n))
            v = float(v)
            if fv is None or isinstance(fv, tuple) or isinstance(fv, str):
                return "after run() call %d: %s is %s in Fortran, %r in the interpreter" % (k + 1, n, B.show(fv), v), info
            exact = n.startswith("<p>chk")
            # the check sums of the inputs are exact (small dyadic numbers); singular values / solutions are
            # compared with a relative tolerance (|res| for svd's first singular value: sign conventions do not matter there)
            if exact and float(fv) != v:
                return ("after run() call %d: %s is %r in Fortran, %r in the interpreter (weighted sum of the entries of "
                        "an argument, read %s the call)" % (k + 1, n, float(fv), v, "before and after" if case["read_first"] else "after")), info
            if not exact and abs(float(fv) - v) > 1e-9 * max(1.0, abs(v)):
                return "after run() call %d: %s is %r in Fortran, %r in the interpreter (tolerance 1e-9)" % (k + 1, n, float(fv), v), info
    info["steps_compared"] = len(isteps)
    return None, info


def lapack_shard(ctx, n):
    def body(case):
        msg, info = check_lapack(case)
        if "skip" in info:
            ctx.count("lapack skipped")
            ctx.note(case, False, ["lapack_skipped"])
            return
        ctx.note(case, True, ["lapack_" + case["kind"]])
        if msg is not None:
            ctx.fail("lapack", case, msg, sig="lapack " + case["kind"] + " " + sig_of(msg))

    hyp_explore(ctx, lapack_cases(), body, n, "lapack")


def sig_of(msg):
    import re
    for key in ("does not compile", "CodeGenerator raised", "CodeBuilder raised", "did not finish", "wrote to stderr",
                "ended with status", "dumped", "next phase", "is not in the state dump", "unallocated", "returned", "profile counter",
                "the interpreter raises"):
        if key in msg:
            if key == "does not compile":
                m = re.search(r"Error: (.{0,40})", msg)
                return key + ": " + re.sub(r"[0-9]+", "#", m.group(1) if m else "")
            if key == "CodeGenerator raised":
                return key + " " + re.sub(r"[0-9]+", "#", msg.split("raised ")[1][:60])
            return key
    if " in Fortran, " in msg:
        return "value differs"
    return msg[:40]


def replay(sub, case):
    if sub == "twoplain":
        return check_twoplain(case)[0]
    if sub == "lapack":
        return check_lapack(case)[0]
    return check_case(case)[0]


def shrink(sub, case):
    if sub in ("twoplain", "lapack"):
        return case
    from checks.c01 import shrink_method_case
    c = {"method": case["method"], "plan": {"max_steps": case["steps"]}}

    def failing(cc):
        return check_case({"method": cc["method"], "steps": cc["plan"]["max_steps"],
                           "instrumented": case.get("instrumented", False)})[0]
    out = shrink_method_case(c, failing, sig_of, budget=30)
    return {"method": out["method"], "steps": out["plan"]["max_steps"], "instrumented": case.get("instrumented", False)}


def shard(ctx, n):
    if not F.gfortran_available():
        raise HarnessError("gfortran is not installed")
    strat = st.fixed_dictionaries({"method": methods(profile_for(ctx)), "steps": st.integers(1, 5),
                                   "instrumented": st.sampled_from([False, False, False, True])})

    def body(case):
        msg, info = check_case(case)
        if "skip" in info:
            ctx.count("skipped")
            ctx.count("skipped: " + info["skip"].split(":")[0][:50])
            ctx.note(case, False, ["skipped"])
            return
        feats = method_features(case["method"])
        classes = ["compiled" if info.get("compiled") else "not_compiled"]
        if case.get("instrumented"):
            classes.append("instrumented")
        for f in ("loop", "zero_trip", "if", "else", "ifexpr", "fail", "switch", "restart", "raise", "yield", "array",
                  "matmul", "self_update", "multi_result", "zero_result", "nested_call", "multi_phase", "uvec_move",
                  "zero_arg_call", "triangular", "recall", "kw_reverse", "loop2"):
            if f in feats:
                classes.append("has_" + f)
        if info.get("truncated"):
            ctx.count("truncated_inexact")
        ctx.count("steps_compared", info.get("steps_compared", 0))
        interesting = any(f in feats for f in ("loop", "if", "ifexpr", "multi_phase", "fail", "switch", "restart")) \
            or "op_yield" in feats
        ctx.note(case, bool(info.get("compiled") and info.get("steps_compared", 0) >= 1 and interesting), classes)
        if msg is not None:
            ctx.fail("c03", case, msg, sig=sig_of(msg))

    hyp_explore(ctx, strat, body, n, "c03")


def run(ctx):
    if ctx.quick:
        ctx.parallel(shard, 16, 64)
        ctx.parallel(twoplain_shard, 16, 6)
        ctx.parallel(lapack_shard, 16, 3)
    else:
        ctx.parallel(shard, 16, 1500)
        ctx.parallel(twoplain_shard, 16, 300)
        ctx.parallel(lapack_shard, 16, 150)

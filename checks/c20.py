"""C20 - line wrapping of generated code changes layout only."""
import ast

from hypothesis import strategies as st

from vlib.runner import hyp_explore

LEVEL = "exploration"
RULE = ("Hypothesis-generated code lines: token sequences (identifiers, numbers, operators, brackets glued to "
        "identifiers, quoted strings with single/multiple embedded blanks standing alone, followed by glued "
        "punctuation or glued to a preceding '(' or '=', tokens longer than the width) joined by 1-3 blanks, x "
        "level 0-6 x width 8-132 x indentation unit x {Python, Fortran} padding; plus syntactically valid Python "
        "statements from a small grammar for the AST clause; plus the per-line use in emission: whole modules generated for "
        "Hypothesis-generated programs (Python: parses, multi-token lines within 80 columns; Fortran: every statement of the "
        "unwrapped emitter buffer has the same tokens after wrapping and re-joining, multi-token lines within 80 columns). Non-trivial = wrapped into >= 2 lines and the line "
        "contains a quoted string or a token longer than a third of the width; distinct by canonical JSON.")
ASSUMPTIONS = ["input lines have balanced quotes and no escaped quote characters inside string literals",
               "a 'token' for the width clause is a blank-separated chunk, blanks inside quotes not counting",
               "the level indentation is added by the caller (as the emitters do), so a line fits when "
               "level*len(indentation) + len(line) <= width"]
BUDGET_S = {"quick": 90, "thorough": 1200}


# ---------------------------------------------------------------- own quote-aware tokenizers

class Unterminated(Exception):
    pass


def lang_tokens(s):
    """Words (maximal runs of non-blank, non-quote characters) and string literals."""
    out = []
    i, n = 0, len(s)
    cur = ""
    while i < n:
        c = s[i]
        if c in "'\"":
            if cur:
                out.append(cur)
                cur = ""
            j = s.find(c, i + 1)
            if j < 0:
                raise Unterminated(s[i:])
            out.append(s[i:j + 1])
            i = j + 1
        elif c.isspace():
            if cur:
                out.append(cur)
                cur = ""
            i += 1
        else:
            cur += c
            i += 1
    if cur:
        out.append(cur)
    return out


def chunks(s):
    """Blank-separated chunks; blanks inside quotes do not separate."""
    out = []
    cur = ""
    q = None
    for c in s:
        if q is not None:
            cur += c
            if c == q:
                q = None
        elif c in "'\"":
            q = c
            cur += c
        elif c.isspace():
            if cur:
                out.append(cur)
                cur = ""
        else:
            cur += c
    if cur:
        out.append(cur)
    return out


def split_comment(s, target):
    """(code part, trailing comment or None): the comment starts at the first '!' (Fortran) / '#' (Python)
    outside a quoted string."""
    start = "#" if target == "python" else "!"
    q = None
    for i, c in enumerate(s):
        if q is not None:
            if c == q:
                q = None
        elif c in "'\"":
            q = c
        elif c == start:
            return s[:i], s[i:]
    return s, None


# ---------------------------------------------------------------- oracle

def wrap(case):
    if case["target"] == "python":
        from dagrt.codegen.python import wrap_line
    else:
        from dagrt.codegen.fortran import wrap_line
    return wrap_line(case["line"], case["level"], width=case["width"], indentation=case["indentation"])


def check_case(case):
    line = case["line"]
    marker = "\\" if case["target"] == "python" else "&"
    try:
        lines = wrap(case)
    except Exception as e:
        return "wrap_line raised %s: %s" % (type(e).__name__, e)
    if not isinstance(lines, list) or not lines:
        return "wrap_line returned %r" % (lines,)
    ind = case["level"] * len(case["indentation"])
    code_in, comment_in = split_comment(line, case["target"])
    want = lang_tokens(code_in)
    got = []
    comments = []
    for k, ln in enumerate(lines):
        last = k == len(lines) - 1
        try:
            code, comment = split_comment(ln, case["target"])
        except Exception:
            code, comment = ln, None
        if comment is not None:
            comments.append(comment)
        body = code.rstrip(" ")
        if not last:
            if not ln.endswith(marker):
                return "non-final line %d does not end in the continuation marker: %r" % (k, ln)
            if not body.endswith(marker):
                # free-form rules: a '&' (Python: a backslash) inside a comment belongs to the comment, so the
                # statement ends here and the next physical line is read as a new statement
                return "the continuation marker of line %d is inside a comment: %r" % (k, ln)
            body = body[:-1].rstrip(" ")
        if not (body.strip() or comment):
            return "output line %d is empty: %r" % (k, ln)
        try:
            toks = lang_tokens(body)
        except Unterminated:
            return "a quoted string is split across lines (line %d: %r)" % (k, ln)
        got.extend(toks)
        if len(chunks(body)) > 1 and ind + len(ln) > case["width"]:
            return ("line %d holds %d tokens but does not fit: indent %d + length %d > width %d: %r"
                    % (k, len(chunks(body)), ind, len(ln), case["width"], ln))
    if got != want:
        return "token sequence changed: %r -> %r" % (want, got)
    if " ".join(" ".join(comments).split()) != " ".join((comment_in or "").split()):
        return "trailing comment changed: %r -> %r" % (comment_in, comments)
    if case.get("python_stmt"):
        joined = "\n".join(lines)
        try:
            a = ast.dump(ast.parse(line))
        except SyntaxError:
            return None   # generator slip: not a valid statement; nothing to compare
        try:
            b = ast.dump(ast.parse(joined))
        except SyntaxError as e:
            return "wrapped Python statement no longer parses: %s" % e
        if a != b:
            return "wrapped Python statement parses to a different syntax tree"
    return None


def sig_of(msg):
    for key in ("does not end", "inside a comment", "trailing comment changed", "is empty", "split across", "does not fit", "token sequence", "raised",
                "no longer parses", "different syntax tree", "returned"):
        if key in msg:
            return key
    return msg[:40]


def replay(sub, case):
    if sub == "generated":
        return check_generated(case)
    return check_case(case)


def shrink(sub, case):
    if sub == "generated":
        return case
    from vlib.shrink import ddmin_list
    sig = sig_of(check_case(case) or "")
    toks = chunks(case["line"])

    def still(ts):
        c = dict(case, line=" ".join(ts))
        if case.get("python_stmt"):
            try:
                ast.parse(c["line"])
            except SyntaxError:
                return False
        m = check_case(c)
        return m is not None and sig_of(m) == sig

    if still(toks):
        toks = ddmin_list(toks, still, [300])
        case = dict(case, line=" ".join(toks))
    for lvl in range(case["level"]):
        c = dict(case, level=lvl)
        m = check_case(c)
        if m is not None and sig_of(m) == sig:
            case = c
            break
    return case


# ---------------------------------------------------------------- generators

IDENTS = ["x", "y", "local_y", "self.global_state_y", "dagrt_state%dagrt_refcnt_p_last_rhs_y", "i", "tmp_0",
          "lploc_temp", "self._functions.func_f", "n", "result"]
OPS = ["+", "-", "*", "/", "=", "==", "<=", "**", ".and.", ".ne.", "=>", "::", ",", "!=", "/=", "!=", "%"]
WORDS = ["alpha", "beta", "failed", "to", "allocate", "x", "a", "0", "state", "C:\\dir\\", "\\", "it's", '3"', "don't", '"q"']


def string_literals(glue_ok=True):
    q = st.sampled_from(["'", '"'])
    inner = st.lists(st.sampled_from(WORDS), min_size=0, max_size=5).flatmap(
        lambda ws: st.lists(st.sampled_from([" ", " ", "  ", "   "]), min_size=max(len(ws) - 1, 0),
                            max_size=max(len(ws) - 1, 0)).map(
            lambda seps: "".join(w + (seps[i] if i < len(seps) else "") for i, w in enumerate(ws))))
    # words may contain the *other* quote character (an odd number of them): "it's", '3" pipe'
    return st.tuples(q, inner).map(lambda t: t[0] + t[1].replace(t[0], "") + t[0])


def token_strategy(glued_strings):
    s = string_literals()
    alts = [
        st.sampled_from(IDENTS),
        st.sampled_from(IDENTS),
        st.sampled_from(OPS),
        st.integers(0, 10 ** 6).map(str),
        st.sampled_from(["1.5d0", "2.0e-3", "(-1.0d0)"]),
        st.tuples(st.sampled_from(["f", "str", "int", "write"]), st.sampled_from(IDENTS)).map(lambda t: t[0] + "(" + t[1]),
        st.sampled_from([")", "))", "(", "a[i]", "x(int(i))", "y)", "z),"]),
        s,                                                  # string standing alone
        st.tuples(s, st.sampled_from([",", ")", "),", "))"])).map(lambda t: t[0] + t[1]),   # glued punctuation after
        st.text(alphabet="abcxyz_", min_size=20, max_size=60),   # long token
    ]
    if glued_strings:
        alts.append(st.tuples(st.sampled_from(["(", "f(", "x=", "time_id=", "E("]), s,
                              st.sampled_from(["", ")", ","])).map(lambda t: t[0] + t[1] + t[2]))
    return st.one_of(*alts)


def contains_glued_blank_string(line):
    """A quoted string containing a blank that does not start a blank-separated chunk."""
    for ch in chunks(line):
        if ch[0] not in "'\"":
            i = 0
            while i < len(ch):
                if ch[i] in "'\"":
                    j = ch.find(ch[i], i + 1)
                    if j < 0:
                        break
                    if any(c.isspace() for c in ch[i:j + 1]):
                        return True
                    i = j + 1
                else:
                    i += 1
    return False


def line_cases(glued_strings):
    toks = st.lists(token_strategy(glued_strings), min_size=1, max_size=14)
    seps = st.sampled_from([" ", " ", " ", "  ", "   "])
    line = toks.flatmap(lambda ts: st.lists(seps, min_size=len(ts), max_size=len(ts)).map(
        lambda ss: "".join(t + s for t, s in zip(ts, ss)).rstrip(" ")))
    base = st.fixed_dictionaries(dict(
        line=line,
        level=st.integers(0, 6),
        width=st.one_of(st.integers(8, 132), st.integers(20, 60), st.just(80)),
        indentation=st.sampled_from(["    ", "    ", " ", "  "]),
        target=st.sampled_from(["python", "fortran"]),
        comment=st.one_of(st.none(), st.none(), st.none(),
                          st.lists(st.sampled_from(WORDS[:9] + ["it's", "&", "(see", "above)"]), min_size=1, max_size=12)),
    ))

    def finish(c):
        # the generated tokens contain no comment character outside strings; a trailing comment is appended
        c = dict(c)
        words = c.pop("comment")
        mark = "#" if c["target"] == "python" else "!"
        if c["target"] == "fortran":
            # "!=" is Python's; in a Fortran line the "!" would start a comment
            c["line"] = c["line"].replace("!=", "/=")
        if any(split_comment(t, c["target"])[1] is not None for t in [c["line"]]):
            return c
        if words is not None:
            c["line"] = c["line"] + "  " + mark + " " + " ".join(words)
        return c
    return base.map(finish)


def python_stmt_cases(glued_strings):
    name = st.sampled_from(["x", "local_y", "self.global_state_y", "self.t", "local_tmp_0"])
    s = string_literals()
    atom = st.one_of(name, name, st.integers(0, 9999).map(str), s, st.just("self._numpy.abs(local_y)"))
    op = st.sampled_from([" + ", " * ", " - ", " / ", " == ", " < ", " != ", " != "])
    expr = st.lists(atom, min_size=1, max_size=8).flatmap(
        lambda atoms: st.lists(op, min_size=len(atoms) - 1, max_size=len(atoms) - 1).map(
            lambda ops: "".join(a + (ops[i] if i < len(ops) else "") for i, a in enumerate(atoms))))
    kwstr = s if glued_strings else st.sampled_from(["'final'", "'y'", "'state_0'", '"t_id"'])
    assign = st.tuples(name, expr).map(lambda t: "%s = %s" % t)
    raise_ = st.tuples(s, s).map(lambda t: "raise self.StepError(%s, %s)" % t)
    yield_ = st.tuples(expr, kwstr, kwstr, expr).map(
        lambda t: "yield self.StateComputed(t=%s, time_id=%s, component_id=%s, state_component=%s)" % t)
    call = st.tuples(name, st.lists(expr, min_size=1, max_size=4)).map(
        lambda t: "%s = self._functions.f(%s)" % (t[0], ", ".join(t[1])))
    if_ = expr.map(lambda e: "if %s: pass" % e)
    comment = st.one_of(st.just(""), st.just(""), st.lists(st.sampled_from(WORDS[:9] + ["it's", "!", "!="]), min_size=1, max_size=10)
                        .map(lambda ws: "  # " + " ".join(ws)))
    return st.fixed_dictionaries(dict(
        line=st.tuples(st.one_of(assign, raise_, yield_, call, if_), comment).map(lambda t: t[0] + t[1]),
        level=st.integers(0, 5),
        width=st.one_of(st.integers(12, 100), st.just(80)),
        indentation=st.just("    "),
        target=st.just("python"),
        python_stmt=st.just(True),
    ))


def shard(ctx, n):
    glued = not ctx.is_excluded("glued_blank_string")

    def body(case):
        if not glued and contains_glued_blank_string(case["line"]):
            ctx.count("excluded_by_known_finding")
            return
        try:
            nlines = len(wrap(case))
        except Exception:
            nlines = 0
        line = case["line"]
        has_str = ("'" in line) or ('"' in line)
        long_tok = any(len(c) > case["width"] / 3 for c in chunks(line))
        classes = [case["target"]]
        if case.get("python_stmt"):
            classes.append("python_stmt")
        if nlines >= 2:
            classes.append("wrapped")
        if has_str:
            classes.append("has_string")
        if contains_glued_blank_string(line):
            classes.append("glued_blank_string")
        if long_tok:
            classes.append("long_token")
        ctx.note(case, nlines >= 2 and (has_str or long_tok), classes)
        msg = check_case(case)
        if msg is not None:
            ctx.fail("stmt" if case.get("python_stmt") else "line", case, msg, sig=sig_of(msg))

    hyp_explore(ctx, st.one_of(line_cases(glued), line_cases(glued), python_stmt_cases(glued)), body, n, "wrap")


# ---------------------------------------------------------------- per-line use in emission (end to end)

def logical_lines(text, marker):
    """Physical lines joined at continuation markers -> list of (joined text, [physical lines])."""
    out = []
    cur, phys = "", []
    for ln in text.split("\n"):
        phys.append(ln)
        body = ln.rstrip()
        code = split_comment(body, "fortran" if marker == "&" else "python")[0].rstrip()
        if code.endswith(marker):
            # a marker inside a comment does not continue anything
            cur += body[:-1].rstrip(" ") + " "
        else:
            out.append((cur + body.lstrip() if cur else body, phys))
            cur, phys = "", []
    if cur or phys:
        out.append((cur, phys))
    return out


# user-supplied lines go through the same wrapping: comment characters inside string literals, a long trailing comment
PREAMBLE = """
character(len=40), parameter :: verif_a = 'warning! state left the region', verif_b = 'clamping it! now', verif_c = 'x'
integer, parameter :: verif_k = 3 ! a trailing comment that makes this line considerably longer than eighty columns
type verif_t
  real*8 :: member_alpha, member_beta, member_gamma, member_delta, member_epsilon, member_zeta, member_eta
   integer :: count_alpha, count_beta, count_gamma, count_delta, count_epsilon, count_zeta, count_eta_2, n
 real*8 :: other_alpha, other_beta, other_gamma, other_delta, other_epsilon, other_zeta, other_eta, other_n
end type
character(len=60), parameter :: verif_d = "it's a text with an exclamation mark! and more of it", verif_e = 'y'
"""


def check_generated(case):
    """The wrapper as the generators use it: every emitted line of a generated module."""
    import ast
    from vlib import backends as B
    from vlib import fharness as F
    method = case["method"]
    try:
        dag = B.build_dag(method)
    except Exception as e:
        return "CodeBuilder raised %s: %s" % (type(e).__name__, e)
    width = 80
    if case["target"] == "python":
        from dagrt.codegen import PythonCodeGenerator
        try:
            text = PythonCodeGenerator(class_name="Method")(dag)
        except Exception:
            return None         # not this property's business (C01)
        try:
            ast.parse(text)
        except SyntaxError as e:
            return "generated Python module does not parse: %s" % e
        inside = False
        for k, ln in enumerate(text.split("\n")):
            # only the phase functions go through the wrapper (the rest is copied source text)
            if ln.startswith("    def "):
                inside = ln.startswith("    def phase_")
            if not inside:
                continue
            body = ln[:-1] if ln.endswith("\\") else ln
            try:
                n = len(chunks(body))
            except Exception:
                n = 2
            if n > 1 and len(ln) > width and "phase_transition_table" not in ln and '"""' not in ln:
                return "generated Python line %d holds %d tokens and is %d columns wide: %r" % (k + 1, n, len(ln), ln[:120])
        return None
    try:
        cg, text = F.generate(dag, method["ulen"], module_preamble=PREAMBLE)
    except Exception:
        return None             # C03's business
    raw = [l for l in cg.module_emitter.code]
    logical = logical_lines(text, "&")
    # templates may already contain continuation lines: join the unwrapped buffer the same way
    raw_nonblank = [r[0] for r in logical_lines("\n".join(raw), "&") if r[0].strip()]
    log_nonblank = [l for l in logical if l[0].strip()]
    for k, (joined, phys) in enumerate(log_nonblank):
        for ln in phys:
            body = ln.rstrip()
            if body.lstrip().startswith("!"):
                continue
            core = body[:-1] if body.endswith("&") else body
            try:
                n = len(chunks(split_comment(core, "fortran")[0]))      # a trailing comment stays with its statement
            except Exception:
                n = 2
            if n > 1 and len(body) > width:
                return "generated Fortran line holds %d tokens and is %d columns wide: %r" % (n, len(body), body[:120])
    if len(raw_nonblank) == len(log_nonblank):
        for r, (joined, phys) in zip(raw_nonblank, log_nonblank):
            if r.lstrip().startswith("!") or r.lstrip().startswith("#"):
                continue
            try:
                if lang_tokens(r) != lang_tokens(joined):
                    return "emitted Fortran statement changed by wrapping: %r -> %r" % (r.strip()[:100], joined.strip()[:100])
            except Unterminated:
                continue
    else:
        return "wrapping changed the number of Fortran statements: %d unwrapped lines, %d after re-joining" % (
            len(raw_nonblank), len(log_nonblank))
    return None


def generated_shard(ctx, n):
    from checks import c03
    from vlib.progen import methods
    prof = dict(c03.PROFILE, subscript_whole_array_results=False, minmax_loop_counter=False, max_ops=10)
    strat = st.fixed_dictionaries({"method": methods(prof), "target": st.sampled_from(["python", "fortran"])})

    def body(case):
        ctx.note(case, True, ["generated_" + case["target"]])
        msg = check_generated(case)
        if msg is not None:
            ctx.fail("generated", case, msg, sig=" ".join(msg.split(" ")[:4]))

    hyp_explore(ctx, strat, body, n, "generated")


def run(ctx):
    if ctx.quick:
        ctx.parallel(shard, 8, 1500)
        ctx.parallel(generated_shard, 16, 12)
    else:
        ctx.parallel(shard, 16, 100000)
        ctx.parallel(generated_shard, 16, 1500)

"""C18 - constant hoisting preserves value and hoists only constants."""
import itertools

from hypothesis import strategies as st

from checks.c19 import outcome, points_for
from vlib import tree as T
from vlib.exprgen import typed_exprs
from vlib.runner import canon, hyp_explore

LEVEL = "exploration"
RULE = ("Hypothesis-generated expressions over sums, products, quotients, powers, calls (positional/keyword, nested), "
        "subscripts, comparisons, logical operators and conditional expressions (depth <= 5) x a drawn subset of "
        "their variables (and called function symbols) declared free x an injective new_var_func whose names do not "
        "occur in the expression. Oracle: hoisted assignments substituted back evaluate equal to the original at 8 "
        "exact rational points x 2 random-oracle interpretations; no hoisted expression mentions a free variable; "
        "every new variable assigned exactly once. Non-trivial = >= 1 assignment emitted and >= 1 free variable "
        "remains in the result; distinct by canonical JSON of (expression, free set).")
ASSUMPTIONS = ["new_var_func returns a fresh variable on every call and its names do not occur in the expression (documented contract of the callback)",
               "values are exact rationals; function symbols and subscripted aggregates are interpreted by a random oracle"]
BUDGET_S = {"quick": 90, "thorough": 1200}


def run_collapse(case):
    from pymbolic import var
    from dagrt.expression import collapse_constants
    T.set_kw_order(case)          # keyword arguments written in name order, or reversed
    expr = T.to_pymbolic(case["expr"])
    T.set_kw_order(False)
    free = [var(n) for n in case["free"]]
    counter = itertools.count()
    created = []
    assigned = []

    def new_var():
        v = var("hoist__%d" % next(counter))
        created.append(v.name)
        return v

    def assign(v, e):
        assigned.append((v.name, T.from_pymbolic(e)))

    res = collapse_constants(expr, free, assign, new_var)
    return T.from_pymbolic(res), created, assigned


def check_case(case):
    try:
        res, created, assigned = run_collapse(case)
    except Exception as e:
        return "collapse_constants raised %s: %s" % (type(e).__name__, str(e)[:100])
    free = set(case["free"])
    names = [n for n, _ in assigned]
    if sorted(names) != sorted(set(names)):
        return "a new variable is assigned more than once: %s" % names
    if set(names) != set(created):
        return "created variables %s but assigned %s" % (sorted(created), sorted(names))
    for n, e in assigned:
        bad = T.variables(e, include_functions=True) & free
        if bad:
            return "hoisted expression for %s mentions free variable(s) %s: %s" % (n, sorted(bad), T.to_pymbolic(e))
    used_new = {v for v in T.variables(res, include_functions=True) if v.startswith("hoist__")}
    for _, e in assigned:
        used_new |= {v for v in T.variables(e, include_functions=True) if v.startswith("hoist__")}
    if not used_new <= set(names):
        return "result uses unassigned new variable(s) %s" % sorted(used_new - set(names))
    orig = case["expr"]
    vars_ = T.variables(orig)
    key = canon(case)
    for env in points_for(key, vars_):
        for salt in (1, 2):
            a = outcome(orig, env, salt)
            if a[0] == "skip":
                continue
            env2 = dict(env)
            pending = list(assigned)
            b = None
            for _ in range(len(pending) + 1):
                rest = []
                for n, e in pending:
                    try:
                        o = outcome(e, env2, salt)
                    except T.UndefinedRead:
                        o = ("later",)          # reads a hoisted variable that is not evaluated yet
                    if o[0] == "v":
                        env2[n] = o[1]
                    else:
                        rest.append((n, e))
                if len(rest) == len(pending):
                    break
                pending = rest
            if pending:
                # a hoisted expression could not be evaluated although the original could
                # (e.g. hoisting moved a division out of an untaken branch); Python's lazy
                # semantics would make that observable, but the property speaks of values
                # under valuations, so only compare when everything is defined
                continue
            b = outcome(res, env2, salt)
            if b[0] == "skip":
                continue
            if a != b:
                return ("value changed at %s: original %s, rewritten %s (result %s, assignments %s)"
                        % ({k: str(v) for k, v in env.items()}, a, b, T.to_pymbolic(res),
                           [(n, str(T.to_pymbolic(e))) for n, e in assigned]))
    return None


def sig_of(msg):
    for key in ("raised", "more than once", "created variables", "mentions free", "unassigned", "value changed"):
        if key in msg:
            if key == "raised":
                return msg.split(":")[0]
            return key
    return msg[:40]


def replay(sub, case):
    return check_case(case)


def shrink(sub, case):
    from vlib.shrink import shrink_tree
    sig = sig_of(check_case(case) or "")

    def still(t):
        c = dict(case, expr=t)
        try:
            m = check_case(c)
        except Exception:
            return False
        return m is not None and sig_of(m) == sig

    e = shrink_tree(case["expr"], T.children, T.rebuild, [["var", "x"], ["var", "y"], ["const", 2]], still, [500])
    return dict(case, expr=e)


def shard(ctx, n):
    num, boolean = typed_exprs(num_vars=["x", "y", "z", "a", "b", "c", "<dt>", "<state>y"],
                               funcs=["f", "g", "<func>f", "h"], agg_vars=["arr", "<p>hist"],
                               floats=False, with_minmax=True)
    leafv = st.sampled_from(["x", "y", "z", "a", "<dt>"]).map(lambda n: ["var", n])
    expo = st.sampled_from([-1, -2, 2, 3, -3]).map(lambda c: ["const", c])
    # a power directly inside a power, both exponents constant (rewriting x**a**b is only valid with care)
    nested_pow = st.tuples(leafv, expo, expo, st.integers(1, 2).flatmap(num)).map(
        lambda t: ["sum", ["pow", ["pow", t[0], t[1]], t[2]], t[3]])
    expr = st.one_of(st.integers(1, 4).flatmap(num), st.integers(1, 4).flatmap(num), st.integers(1, 3).flatmap(boolean),
                     nested_pow)

    @st.composite
    def twin_groups(draw):
        """Two nodes with the same *set* of constant operands that differ in operator or multiplicity, each next
        to a non-constant operand: (a + b + y) * (a*b*z), a*a*b*y + a*b*z, ..."""
        consts = draw(st.lists(st.sampled_from(["a", "b", "c", "x"]), min_size=2, max_size=3, unique=True))
        fr = draw(st.lists(st.sampled_from(["y", "z", "<dt>"]), min_size=2, max_size=2, unique=True))
        cv = [["var", n] for n in consts]
        op1, op2 = draw(st.sampled_from([("sum", "prod"), ("prod", "sum"), ("prod", "prod"), ("sum", "sum")]))
        g1 = [op1] + cv + [["var", fr[0]]]
        second = list(cv)
        if op1 == op2:
            second = second + [second[0]]                 # same set, other multiplicity
        g2 = [op2] + list(draw(st.permutations(second))) + [["var", fr[1]]]
        top = draw(st.sampled_from(["sum", "prod"]))
        return {"expr": [top, g1, g2], "free": sorted(fr), "kw_reverse": False}

    @st.composite
    def cases(draw):
        if draw(st.integers(0, 19)) == 0:
            return draw(twin_groups())
        e = draw(expr)
        names = sorted(T.variables(e, include_functions=True))
        if names:
            lo = min(draw(st.sampled_from([0, 1, 1, 1, 2])), len(names))
            free = draw(st.lists(st.sampled_from(names), unique=True, min_size=lo, max_size=min(4, len(names))))
        else:
            free = []
        return {"expr": e, "free": sorted(free), "kw_reverse": draw(st.booleans())}

    def body(case):
        try:
            res, created, assigned = run_collapse(case)
            remaining = T.variables(res, include_functions=True) & set(case["free"])
            nontriv = bool(assigned) and bool(remaining)
            classes = ["assignments_%d" % min(len(assigned), 3)]
        except Exception:
            nontriv, classes = False, ["raised"]
        ks = T.kinds(case["expr"]) - {"var", "const"}
        classes += ["has_" + k for k in sorted(ks)]
        if not case["free"]:
            classes.append("no_free")
        ctx.note(case, nontriv, classes)
        msg = check_case(case)
        if msg is not None:
            ctx.fail("collapse", case, msg, sig=sig_of(msg))

    hyp_explore(ctx, cases(), body, n, "collapse")


def run(ctx):
    if ctx.quick:
        ctx.parallel(shard, 8, 1000)
    else:
        ctx.parallel(shard, 16, 80000)

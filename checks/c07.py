"""C07 - statement-rewriting passes preserve meaning and never capture names."""
import copy
import hashlib
from collections import Counter
from fractions import Fraction

from hypothesis import strategies as st

from vlib import astwalk
from vlib import backends as B
from vlib import sched
from vlib import tree as T
from vlib.progen import count_ops, method_features, methods
from vlib.refexec import Inexact, RefError, to_exact_value
from vlib.runner import canon, hyp_explore

LEVEL = "exploration"
RULE = ("Hypothesis-generated builder programs (nested calls f(g(x)+1, y=h(z)), conditional expressions nested in "
        "condition/then/else and inside call arguments, self-updates x <- x + ..., a[i] <- a[i]*2 in loops, guards, user "
        "variables named like generated ones: tmp, temp, tmp_0, temp_x, ifthenelse_result), each phase lowered with "
        "create_ast_from_phase and rewritten by eliminate_self_dependencies, isolate_function_arguments, "
        "isolate_function_calls, expand_IfThenElse alone and by all four in the Fortran generator's order. Original and "
        "rewritten trees are run top to bottom by an independent value-mode walker (node guards/loops, wrapped "
        "statements unconditional as the back ends emit them) from 2 valuations taken at the phase's entry in a reference "
        "run; additionally a hand-made structured phase (the statements after a drawn split point, still carrying their "
        "own guards and loops, the ones before it only preparing the valuation, so variables named like generated "
        "temporaries are read-only inputs) goes through the same pipelines: every original variable must "
        "end with the same value, the multiset of (user function, arguments) calls must be equal, no variable may be "
        "read before it is set, statement ids must stay unique; a guarded statement rewritten on its own must do nothing at all from a state in which its guard is false. Non-trivial = the pass changed the tree and the phase "
        "contains a call, a conditional expression or a self-dependency; distinct by (program, pipeline).")
ASSUMPTIONS = ["user functions are pure; built-ins are not part of the call log",
               "exact arithmetic; a phase is skipped when the original tree leaves the exact domain",
               "the meaning of a tree is what a structured back end makes of it: guards and loops are nodes, the condition attribute of a wrapped statement is not consulted"]
BUDGET_S = {"quick": 150, "thorough": 1500}

PROFILE = dict(max_ops=8, name_pool="adversarial", alias_arrays=False, dead_code=False,
               extra_kinds=("call", "call", "real", "real", "arrwrite", "guarded_loop_call", "repeated_arg"))

PIPELINES = {
    "self_dep": ["eliminate_self_dependencies"],
    "args": ["isolate_function_arguments"],
    "calls": ["isolate_function_calls"],
    "ifs": ["expand_IfThenElse"],
    "fortran_order": ["eliminate_self_dependencies", "isolate_function_arguments", "isolate_function_calls",
                      "expand_IfThenElse"],
}

# generator features switched off by known findings
FEATURE_PROFILE = {
    "call_in_ifexpr_branch": {},
}


def initial_env(method, variant):
    env = {"<t>": Fraction(method["t0"]), "<dt>": Fraction(method["dt0"])}
    for n, v in method["state"].items():
        env["<state>" + n] = to_exact_value(v)
    if variant:
        h = hashlib.sha256(canon(method["state"]).encode()).digest()
        for k, n in enumerate(sorted(env)):
            d = Fraction(h[k % 32] % 5 - 2, 2)
            v = env[n]
            env[n] = type(v)([x + d for x in v.v]) if hasattr(v, "v") else v + d
    return env


def phase_entry_envs(method, variant):
    """Environment at the first entry of each phase, obtained by stepping the reference machine
    (so persistent variables assigned by earlier phases are defined, as in a real run)."""
    from vlib.refexec import RefMachine
    m = RefMachine(method)
    m.env.clear()
    m.env.update(initial_env(method, variant))
    out = {}
    for _ in range(6):
        cur = m.next_phase
        if cur not in out:
            out[cur] = {n: (type(v)(v.v) if hasattr(v, "v") else v) for n, v in m.env.items()}
        try:
            ev, outcome = m.single_step()
        except Exception:
            break
        if outcome not in ("completed", "failed"):
            break
    return out


def run_tree(ast, env, honour=False, prefix=()):
    """Returns dict(outcome, env snapshot, calls multiset, executed ids) or raises."""
    w = astwalk.ValueWalker(env, honour_statement_conditions=honour)
    outcome = "completed"
    try:
        for st_ in prefix:
            w.ex.run(st_)
        w.run(ast)
    except sched.StepExit as e:
        outcome = (e.kind, e.arg)
    calls = Counter((c[0], c[1]) for c in w.ex.calls)
    return {"outcome": outcome, "env": sched.env_snapshot(env), "calls": calls, "events": list(w.ex.events)}


def has_call_in_if_branch(t, inside=False):
    if t[0] == "call" and inside and t[1].startswith("<func>"):
        return True
    if t[0] == "if":
        return (has_call_in_if_branch(t[1], inside) or has_call_in_if_branch(t[2], True)
                or has_call_in_if_branch(t[3], True))
    return any(has_call_in_if_branch(c, inside) for c in T.children(t))


def check_phase(dag, pname, method, pipelines, info, envs, split=None, mode=None, case_implicit=0):
    import dagrt.codegen.transform as tr
    from dagrt.codegen.dag_ast import Block, StatementWrapper, create_ast_from_phase
    honour = split is not None
    prefix = ()
    if split is None:
        try:
            ast0 = create_ast_from_phase(dag, pname)
        except Exception as e:
            return "create_ast_from_phase raised %s: %s" % (type(e).__name__, e)
    else:
        # hand-made structured phase: the statements after position `split` (program order), still
        # carrying their own guards and loops; the statements before it only prepare the valuation
        seq = sorted(dag.phases[pname].statements, key=lambda s_: int(s_.id.rsplit("_", 1)[1]))
        k = min(split, max(len(seq) - 1, 0))
        if split >= 4:
            # half of the time the cut falls right behind a flag assignment, so that the guarded statements of an
            # if-block start the tail while the variables of their (hand-written-style) guard were set before it
            starts = [i_ for i_ in range(1, len(seq))
                      if type(seq[i_ - 1]).__name__ == "Assign" and seq[i_ - 1].assignee.startswith("<cond>")]
            if starts:
                k = starts[(split - 4) % len(starts)]
        if mode is None:
            mode = ["stmt", "stmt_inline", "lowered", "lowered_inline"][split % 4]      # older replay files
        if mode.endswith("inline"):
            # hand-written style guards: the builder's flags replaced by the comparisons that define them
            from pymbolic import substitute
            from pymbolic.primitives import Variable
            # (not when the defining comparison calls a user function: a derived statement that
            # "carries the guard" re-evaluates it, which would repeat the call by construction)
            defs = {s_.assignee: s_.rhs for s_ in seq
                    if type(s_).__name__ == "Assign" and s_.assignee.startswith("<cond>") and not s_.assignee_subscript
                    and not any(str(v).startswith("<func>")
                                for v in T.variables(T.from_pymbolic(s_.rhs), include_functions=True))}
            sub = {Variable(n): e for n, e in defs.items()}
            seq = [s_.copy(condition=substitute(s_.condition, sub))
                   if getattr(s_, "condition", True) is not True and sub else s_ for s_ in seq]
        if case_implicit and len(seq) > k:
            # an implicit solve that reads its own assignee (as an implicit Euler stage does), written by hand
            # into the tail: x <- solve xs: xs - x - 2*xs = 0 with guess x
            import dagrt.language as lang
            from pymbolic import var
            reals_ = sorted(n_ for n_, v_ in envs[0].get(pname, {}).items()
                            if not hasattr(v_, "v") and not isinstance(v_, bool) and n_ not in ("<t>", "<dt>"))
            if reals_:
                x = reals_[case_implicit % len(reals_)]
                imp = lang.AssignImplicit(
                    assignees=(x,), solve_variables=("xs_unknown",),
                    expressions=(var("xs_unknown") - var(x) - var("<dt>") * var("xs_unknown"),),
                    other_params={"guess": var(x)}, solver_id="newton",
                    id="implicit_%d" % (len(seq) + 1000), depends_on=frozenset())
                seq = seq[:k] + [imp] + seq[k:]
                info["implicit_solve"] = True
        prefix = tuple(seq[:k])
        from dagrt.codegen.dag_ast import ForLoop

        def node(s_):
            # loops become nodes (the passes are written for loop-free statements, as lowering
            # produces them); the guard stays on the statement
            loops = list(getattr(s_, "loops", []) or [])
            n_ = StatementWrapper(s_.copy(loops=[]) if loops else s_)
            for ident, lo, hi in reversed(loops):
                n_ = ForLoop(ident, lo, hi, n_)
            return n_
        ast0 = Block(*[node(s_) for s_ in seq[k:]])
        if mode.startswith("lowered") and len(seq) - k >= 1:
            # third form: the same statements (with their possibly hand-written-style guards) lowered by
            # create_ast_from_phase, so that guards and loops are nodes - a comparison guard inside a loop
            # node then mentions variables that no statement of the tree mentions
            import dagrt.language as lang
            tail = seq[k:]
            ids = {s_.id for s_ in tail}
            sub_stmts = [s_.copy(depends_on=frozenset(d for d in s_.depends_on if d in ids)) for s_ in tail]
            # keep program order where the dropped edges to the prefix made it implicit
            chained = []
            for pos, s_ in enumerate(sub_stmts):
                chained.append(s_.copy(depends_on=s_.depends_on | (frozenset([sub_stmts[pos - 1].id]) if pos else frozenset())))
            sub_phase = lang.ExecutionPhase(name=pname, next_phase=pname, statements=chained)
            try:
                ast0 = create_ast_from_phase(lang.DAGCode({pname: sub_phase}, pname), pname)
            except Exception as e:
                return "create_ast_from_phase raised %s on hand-written-style statements: %s" % (type(e).__name__, e)
            honour = False
            info["lowered_split"] = True
    stmts0 = astwalk.statements_of(ast0)
    names0 = set()
    for s in stmts0:
        names0 |= set(s.get_read_variables()) | set(s.get_written_variables())
    ids0 = [s.id for s in stmts0]
    base = []
    final_envs = []
    for variant in (0, 1):
        if pname not in envs[variant]:
            info["skip"] = "phase never entered"
            return None
        env = {n: (type(v)(v.v) if hasattr(v, "v") else v) for n, v in envs[variant][pname].items()}
        final_envs.append(env)
        try:
            base.append(run_tree(ast0, env, honour, prefix))
        except (Inexact, RefError, T.UndefinedRead, T.EvalError, ZeroDivisionError, OverflowError, TypeError,
                AttributeError, astwalk.WalkError) as e:
            info["skip"] = type(e).__name__
            return None
    ser0 = astwalk.serialise(ast0)
    if split is not None:
        m = check_guard_carried(seq[k:], node, final_envs, base, pipelines, info)
        if m is not None:
            return m
    for pl in pipelines:
        ast = ast0
        try:
            for pname_ in PIPELINES[pl]:
                ast = getattr(tr, pname_)(ast)
        except Exception as e:
            return "pipeline %s raised %s: %s" % (pl, type(e).__name__, str(e)[:120])
        changed = astwalk.serialise(ast) != ser0
        info.setdefault("changed", {})[pl] = changed
        stmts = astwalk.statements_of(ast)
        ids = [s.id for s in stmts]
        dup = [i for i, c in Counter(ids).items() if c > 1]
        if dup:
            return "pipeline %s: statement id(s) %s occur more than once" % (pl, sorted(dup))
        for variant in (0, 1):
            env = {n: (type(v)(v.v) if hasattr(v, "v") else v) for n, v in envs[variant][pname].items()}
            try:
                got = run_tree(ast, env, honour, prefix)
            except T.UndefinedRead as e:
                return "pipeline %s: %s is read before any statement sets it" % (pl, e.name)
            except astwalk.WalkError as e:
                return "pipeline %s: %s" % (pl, e)
            except Inexact:
                # not a failure of the rewritten program: a value it computes (e.g. a pure built-in hoisted out of an
                # untaken branch) leaves the exactly representable domain, where this harness cannot follow
                info["skip"] = "inexact in the rewritten tree"
                break
            except (RefError, T.EvalError, ZeroDivisionError, OverflowError, TypeError, AttributeError) as e:
                return "pipeline %s: the rewritten tree fails with %s: %s (the original runs fine)" % (
                    pl, type(e).__name__, str(e)[:80])
            want = base[variant]
            if got["outcome"] != want["outcome"]:
                return "pipeline %s: the step ends %s, originally %s" % (pl, got["outcome"], want["outcome"])
            if got["events"] != want["events"]:
                return "pipeline %s: yields %s, originally %s" % (pl, B.show(got["events"]), B.show(want["events"]))
            early = want["outcome"] != "completed"
            for n, v in sorted(want["env"].items()):
                if early and not (n.startswith(("<state>", "<p>")) or n in ("<t>", "<dt>")):
                    continue
                if n not in names0 and not (n.startswith(("<state>", "<p>")) or n in ("<t>", "<dt>")):
                    continue        # not a variable of this phase: a pass cannot know (or harm) it
                if n not in got["env"]:
                    return "pipeline %s: %s is left unset (originally %s)" % (pl, n, B.show(v))
                if got["env"][n] != v:
                    return "pipeline %s: %s ends as %s, originally %s" % (pl, n, B.show(got["env"][n]), B.show(v))
            if got["calls"] != want["calls"]:
                extra = got["calls"] - want["calls"]
                missing = want["calls"] - got["calls"]
                return "pipeline %s: external calls differ: extra %s, missing %s" % (
                    pl, B.show(sorted(extra.elements(), key=repr)[:3]), B.show(sorted(missing.elements(), key=repr)[:3]))
    return None


def check_guard_carried(stmts, node, final_envs, base, pipelines, info):
    """'Statements derived from a guarded statement carry its guard': a guarded statement S handed to a
    pipeline on its own is rewritten into statements that, from a state in which S's guard is false, do
    nothing at all: no variable (old or new) is set, no function is called, nothing is read that is unset."""
    import dagrt.codegen.transform as tr
    from dagrt.codegen.dag_ast import Block
    from pymbolic.primitives import LogicalNot, Variable
    guarded = [s_ for s_ in stmts if getattr(s_, "condition", True) is not True][:4]
    for s_ in guarded:
        one = Block(node(s_))
        for variant in (0, 1):
            if base[variant]["outcome"] != "completed":
                continue
            env = {n: (type(v)(v.v) if hasattr(v, "v") else v) for n, v in final_envs[variant].items()}
            g = s_.condition
            # force the guard false where it is a builder flag or its negation
            if isinstance(g, Variable) and g.name in env:
                env[g.name] = False
            elif isinstance(g, LogicalNot) and isinstance(g.child, Variable) and g.child.name in env:
                env[g.child.name] = True
            w = astwalk.ValueWalker(dict(env))
            try:
                if w.cond(g):
                    continue
            except Exception:
                continue
            info["guard_false_probes"] = info.get("guard_false_probes", 0) + 1
            before = sched.env_snapshot(env)
            for pl in pipelines:
                ast = one
                try:
                    for pname_ in PIPELINES[pl]:
                        ast = getattr(tr, pname_)(ast)
                except Exception as e:
                    return "pipeline %s raised %s on statement %s alone: %s" % (pl, type(e).__name__, s_.id, str(e)[:100])
                e2 = {n: (type(v)(v.v) if hasattr(v, "v") else v) for n, v in env.items()}
                try:
                    got = run_tree(ast, e2, True)
                except Exception as e:
                    return ("pipeline %s: statements derived from %s are evaluated although its guard is false "
                            "(%s: %s)" % (pl, s_.id, type(e).__name__, str(e)[:60]))
                counters = {l[0] for l in (getattr(s_, "loops", None) or [])}    # the loop nodes are the harness's own
                after = {n: v for n, v in got["env"].items() if n not in counters}
                if got["calls"] or got["events"] or got["outcome"] != "completed" or after != {
                        n: v for n, v in before.items() if n not in counters}:
                    newv = sorted(set(got["env"]) - set(before))
                    return ("pipeline %s: statements derived from %s do not carry its guard: with the guard false they "
                            "still run (new/changed variables %s, %d external call(s))"
                            % (pl, s_.id, newv[:3], sum(got["calls"].values())))
    return None


def check_case(case, pipelines=None):
    method = case["method"]
    info = {}
    try:
        dag = B.build_dag(method)
    except Exception as e:
        return "CodeBuilder raised %s: %s" % (type(e).__name__, e), info
    pls = pipelines or case.get("pipelines") or sorted(PIPELINES)
    envs = [phase_entry_envs(method, v) for v in (0, 1)]
    for pname in sorted(dag.phases):
        m = check_phase(dag, pname, method, pls, info, envs)
        if m is not None:
            return "phase %s: %s" % (pname, m), info
        if case.get("split") is not None:
            m = check_phase(dag, pname, method, pls, info, envs, split=case["split"], mode=case.get("mode"),
                            case_implicit=case.get("implicit", 0))
            if m is not None:
                return "phase %s, guarded statements after position %d: %s" % (pname, case["split"], m), info
    return None, info


def sig_of(msg):
    import re
    m = re.search(r"pipeline (\w+)", msg)
    pl = m.group(1) if m else ""
    for key in ("raised", "occur more than once", "is read before", "fails with", "the step ends", "yields",
                "left unset", "ends as", "external calls differ", "NullASTNode", "unknown node", "carry its guard",
                "although its guard is false", "alone"):
        if key in msg:
            return pl + " " + key
    return msg[:40]


def replay(sub, case):
    return check_case(case)[0]


def shrink(sub, case):
    from checks.c01 import shrink_method_case
    sig = sig_of(replay(sub, case) or "")
    pl = sig.split(" ")[0]
    pls = [pl] if pl in PIPELINES else None
    c = {"method": case["method"], "plan": {"max_steps": 1}}
    out = shrink_method_case(c, lambda cc: check_case({"method": cc["method"], "split": case.get("split"),
                                                       "mode": case.get("mode"), "implicit": case.get("implicit", 0)}, pls)[0],
                             sig_of, budget=200)
    r = {"method": out["method"]}
    if pls:
        r["pipelines"] = pls
    if case.get("split") is not None:
        r["split"] = case["split"]
    if case.get("mode") is not None:
        r["mode"] = case["mode"]
    if case.get("implicit"):
        r["implicit"] = case["implicit"]
    return r


def shard(ctx, n):
    excl_call_in_if = ctx.is_excluded("call_in_ifexpr_branch")
    strat = st.fixed_dictionaries({"method": methods(PROFILE), "split": st.integers(0, 7),
                                   "implicit": st.sampled_from([0, 0, 0, 1, 2, 3]),
                                   "mode": st.sampled_from(["stmt", "stmt", "stmt_inline", "stmt_inline", "lowered", "lowered_inline",
                                                            "lowered_inline"])})

    def body(case):
        method = case["method"]
        if excl_call_in_if:
            from vlib.progen import op_trees, walk_ops
            if any(has_call_in_if_branch(t) for ph in method["phases"] for op in walk_ops(ph["body"])
                   for t in op_trees(op)):
                ctx.count("excluded_by_known_finding")
                return
        msg, info = check_case(case)
        feats = method_features(method)
        interesting = ("nested_call" in feats or "ifexpr" in feats or "self_update" in feats or "op_call" in feats)
        for pl, ch in sorted(info.get("changed", {}).items()):
            ctx.note({"method": method, "pipeline": pl}, bool(ch and interesting),
                     ["pipeline_" + pl] + (["changed_" + pl] if ch else []),
                     sample={"pipeline": pl, "phases": method["phases"]}, key=(method, pl))
        if "skip" in info:
            ctx.count("phases_skipped_" + info["skip"])
        if info.get("guard_false_probes"):
            ctx.count("guard_false_probes", info["guard_false_probes"])
        if msg is not None:
            ctx.fail("c07", case, msg, sig=sig_of(msg))

    hyp_explore(ctx, strat, body, n, "c07")


def run(ctx):
    if ctx.quick:
        ctx.parallel(shard, 16, 100)
    else:
        ctx.parallel(shard, 16, 8000)

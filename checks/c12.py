"""C12 - generated Fortran never leaks, double-frees or uses freed user-type storage."""
from hypothesis import strategies as st

from checks import c03
from vlib import backends as B
from vlib import fharness as F
from vlib.progen import method_features, methods
from vlib.runner import HarnessError, hyp_explore

LEVEL = "exploration"
RULE = ("Hypothesis-generated Fortran-subset programs biased to user-type memory traffic (several user-type temporaries, "
        "moves a <- b, overwrites of live values, self-updates, temporaries whose last use is guarded, sits in a yield or "
        "precedes a conditional fail/switch/restart, yields of temporaries and of state, 1-3 phases) are emitted, compiled "
        "with gfortran -fsanitize=address,undefined -fcheck=pointer,bounds together with a driver that calls run() 2-6 "
        "times and then shutdown(). Oracle: exit status 0, no AddressSanitizer / LeakSanitizer / UBSan report, no 'leaked "
        "reference' line from shutdown, no Fortran run-time error. Non-trivial = >= 1 user-type temporary and an early exit, "
        "a guard, or a move; distinct by canonical JSON of (program, state, number of run calls).")
ASSUMPTIONS = ["values are not compared here (C03 does that)",
               "programs do not Raise (a Fortran 'stop' ends the process without clean-up by design)",
               "LeakSanitizer works in this sandbox (checked by a self-test at the start of every run)"]
BUDGET_S = {"quick": 300, "thorough": 2400}

PROFILE = dict(c03.PROFILE)
PROFILE.update(raise_=False, max_ops=9,
               # C03's known findings (values / compilation) are not this check's business
               subscript_whole_array_results=False, minmax_loop_counter=False,
               builtin_set=["<builtin>len", "<builtin>elementwise_abs", "<builtin>norm_2"],
               uvfn_boost=True,
               extra_kinds=("uvec", "uvec", "uvec", "uvec", "call", "yield", "if", "if", "arrwrite", "arrwrite", "newarr", "utemploop", "utemploop"))
FEATURE_PROFILE = dict(c03.FEATURE_PROFILE)


def profile_for(ctx):
    p = dict(PROFILE)
    for feat, override in FEATURE_PROFILE.items():
        if ctx.is_excluded(feat):
            p.update(override)
    if ctx.is_excluded("utype_temp_alive_at_early_exit"):
        p.update(exits=False)
    return p


LEAK_SELFTEST = """
program leaktest
  implicit none
  real*8, pointer :: p(:)
  allocate(p(100))
  p = 1d0
  write(*,*) p(3)
  nullify(p)
end program
"""


def lsan_works():
    import os
    import shutil
    import subprocess
    import tempfile
    d = tempfile.mkdtemp(prefix="verif-lsan-", dir=os.environ.get("TMPDIR", "/tmp"))
    try:
        with open(os.path.join(d, "t.f90"), "w") as f:
            f.write(LEAK_SELFTEST)
        p = subprocess.run(["gfortran", "-g", "-fsanitize=address", "t.f90", "-o", "t"], cwd=d, capture_output=True,
                           text=True)
        if p.returncode != 0:
            return False
        r = subprocess.run([os.path.join(d, "t")], cwd=d, capture_output=True, text=True,
                           env=dict(os.environ, ASAN_OPTIONS="detect_leaks=1"))
        return "LeakSanitizer" in r.stderr
    finally:
        shutil.rmtree(d, ignore_errors=True)


def check_case(case):
    method, nsteps = case["method"], case["steps"]
    info = {}
    ref, rstatus = c03.reference_steps(method, nsteps)
    if rstatus.startswith("slip"):
        info["skip"] = rstatus
        return None, info
    if any(r["outcome"] not in ("completed", "failed") for r in ref):
        info["skip"] = "program raises"
        return None, info
    try:
        dag = B.build_dag(method)
    except Exception as e:
        return "CodeBuilder raised %s: %s" % (type(e).__name__, e), info
    try:
        cg, text = F.generate(dag, method["ulen"])
    except Exception as e:
        info["skip"] = "generator raised (C03's business): %s" % type(e).__name__
        return None, info
    fields = F.parse_state_type(text)
    nm = cg.name_manager
    pn = B.persistent_names(method)
    init_args = [("dagrt_t", method["t0"]), ("dagrt_dt", method["dt0"])]
    for n, v in sorted(method["state"].items()):
        if "<state>" + n in pn:
            init_args.append((nm.name_global("<state>" + n), v))
    init_args = [(k, v) for k, v in init_args if k in fields]
    driver = F.driver_source("m", fields, init_args, nsteps)
    res = F.compile_and_run(text, driver, sanitize=True)
    info["compiled"] = res["compile_ok"]
    if not res["compile_ok"]:
        info["skip"] = "does not compile (C03's business)"
        return None, info
    info["outcomes"] = [r["outcome"] for r in ref]
    if res["rc"] == "timeout":
        return "the sanitized stepper did not finish within 60 s", info
    err = res["stderr"]
    for key, what in (("ERROR: AddressSanitizer", "AddressSanitizer error"),
                      ("ERROR: LeakSanitizer", "LeakSanitizer: leaked storage"),
                      ("runtime error:", "UndefinedBehaviorSanitizer error"),
                      ("leaked reference", "shutdown reports a leaked reference"),
                      ("Fortran runtime error", "Fortran run-time error")):
        if key in err:
            lines = [l.strip() for l in err.split("\n") if l.strip()]
            pick = [l for l in lines if key in l or l.startswith("SUMMARY") or "leaked reference" in l
                    or "remaining refcount" in l or " in dagrt_" in l or " in drtf_" in l or "MAIN__" in l]
            return "%s: %s" % (what, " | ".join(pick[:5])[:400]), info
    if res["rc"] != 0:
        return "sanitized program ended with status %s: %s" % (res["rc"], err[-300:]), info
    if err.strip():
        return "program wrote to stderr: %s" % err.strip()[:300], info
    return None, info


def sig_of(msg):
    import re
    head = msg.split(":")[0]
    m = re.search(r"AddressSanitizer: ([a-z-]+)", msg)
    if m:
        return head + " " + m.group(1)
    return head[:60]


def replay(sub, case):
    return check_case(case)[0]


def shrink(sub, case):
    from checks.c01 import shrink_method_case
    c = {"method": case["method"], "plan": {"max_steps": case["steps"]}}

    def failing(cc):
        return check_case({"method": cc["method"], "steps": cc["plan"]["max_steps"]})[0]
    out = shrink_method_case(c, failing, sig_of, budget=30)
    return {"method": out["method"], "steps": out["plan"]["max_steps"]}


def shard(ctx, n):
    strat = st.fixed_dictionaries({"method": methods(profile_for(ctx)), "steps": st.integers(2, 6)})

    def body(case):
        msg, info = check_case(case)
        if "skip" in info:
            ctx.count("skipped")
            ctx.count("skipped: " + info["skip"].split(":")[0][:50])
            ctx.note(case, False, ["skipped"])
            return
        feats = method_features(case["method"])
        classes = ["sanitized_run"]
        for f in ("fail", "switch", "restart", "if", "else", "yield", "uvec_move", "self_update", "loop", "multi_phase",
                  "nested_call", "ifexpr"):
            if f in feats:
                classes.append("has_" + f)
        if "failed" in info.get("outcomes", []):
            classes.append("ran_failed_step")
        from vlib.progen import UVEC_TEMPS, walk_ops
        utemps = {op[1] for ph in case["method"]["phases"] for op in walk_ops(ph["body"])
                  if op[0] == "assign" and op[1] in UVEC_TEMPS + ["v2", "temp", "tmp_1", "temp_k1"]}
        utemps |= {a for ph in case["method"]["phases"] for op in walk_ops(ph["body"]) if op[0] == "call"
                   for a in op[1] if a in UVEC_TEMPS}
        nontriv = bool(utemps) and any(f in feats for f in ("fail", "switch", "restart", "if", "uvec_move"))
        ctx.note(case, nontriv, classes)
        if msg is not None:
            ctx.fail("c12", case, msg, sig=sig_of(msg))

    hyp_explore(ctx, strat, body, n, "c12")


def run(ctx):
    if not F.gfortran_available():
        raise HarnessError("gfortran is not installed")
    if not lsan_works():
        raise HarnessError("LeakSanitizer self-test failed: an intentionally leaking program is not reported")
    if ctx.quick:
        ctx.parallel(shard, 16, 12)
    else:
        ctx.parallel(shard, 16, 400)

"""C12 - generated Fortran never leaks, double-frees or uses freed user-type storage."""
from hypothesis import strategies as st

from checks import c03
from vlib import backends as B
from vlib import fharness as F
from vlib.progen import method_features, methods
from vlib.runner import HarnessError, hyp_explore

LEVEL = "exploration"
RULE = ("Hypothesis-generated Fortran-subset programs biased to user-type memory traffic (several user-type temporaries, "
        "moves a <- b, overwrites of live values, self-updates, temporaries whose last use is guarded, sits in a yield or "
        "precedes a conditional fail/switch/restart, yields of temporaries and of state, 1-3 phases) are emitted, compiled "
        "with gfortran -fsanitize=address,undefined -fcheck=pointer,bounds together with a driver that calls run() 2-6 "
        "times and then shutdown(); a second generator produces methods over two user types of different Fortran structure (a structure with a pointer member and a plain array, either sorting first). Oracle: exit status 0, no AddressSanitizer / LeakSanitizer / UBSan report, no 'leaked "
        "reference' line from shutdown, no Fortran run-time error. Non-trivial = >= 1 user-type temporary and an early exit, "
        "a guard, or a move; distinct by canonical JSON of (program, state, number of run calls).")
ASSUMPTIONS = ["values are not compared here (C03 does that)",
               "programs do not Raise (a Fortran 'stop' ends the process without clean-up by design)",
               "LeakSanitizer works in this sandbox (checked by a self-test at the start of every run)"]
BUDGET_S = {"quick": 300, "thorough": 2400}

PROFILE = dict(c03.PROFILE)
PROFILE.update(raise_=False, max_ops=9,
               # C03's known findings (values / compilation) are not this check's business
               subscript_whole_array_results=False, minmax_loop_counter=False,
               builtin_set=["<builtin>len", "<builtin>elementwise_abs", "<builtin>norm_2"],
               uvfn_boost=True,
               extra_kinds=("uvec", "uvec", "uvec", "uvec", "call", "yield", "if", "if", "arrwrite", "arrwrite", "newarr", "utemploop", "utemploop"))
FEATURE_PROFILE = dict(c03.FEATURE_PROFILE)


def profile_for(ctx):
    p = dict(PROFILE)
    for feat, override in FEATURE_PROFILE.items():
        if ctx.is_excluded(feat):
            p.update(override)
    if ctx.is_excluded("utype_temp_alive_at_early_exit"):
        p.update(exits=False)
    return p


LEAK_SELFTEST = """
program leaktest
  implicit none
  real*8, pointer :: p(:)
  allocate(p(100))
  p = 1d0
  write(*,*) p(3)
  nullify(p)
end program
"""


def lsan_works():
    import os
    import shutil
    import subprocess
    import tempfile
    d = tempfile.mkdtemp(prefix="verif-lsan-", dir=os.environ.get("TMPDIR", "/tmp"))
    try:
        with open(os.path.join(d, "t.f90"), "w") as f:
            f.write(LEAK_SELFTEST)
        p = subprocess.run(["gfortran", "-g", "-fsanitize=address", "t.f90", "-o", "t"], cwd=d, capture_output=True,
                           text=True)
        if p.returncode != 0:
            return False
        r = subprocess.run([os.path.join(d, "t")], cwd=d, capture_output=True, text=True,
                           env=dict(os.environ, ASAN_OPTIONS="detect_leaks=1"))
        return "LeakSanitizer" in r.stderr
    finally:
        shutil.rmtree(d, ignore_errors=True)


def check_case(case):
    method, nsteps = case["method"], case["steps"]
    info = {}
    ref, rstatus = c03.reference_steps(method, nsteps)
    if rstatus.startswith("slip"):
        info["skip"] = rstatus
        return None, info
    if any(r["outcome"] not in ("completed", "failed") for r in ref):
        info["skip"] = "program raises"
        return None, info
    try:
        dag = B.build_dag(method)
    except Exception as e:
        return "CodeBuilder raised %s: %s" % (type(e).__name__, e), info
    try:
        cg, text = F.generate(dag, method["ulen"])
    except Exception as e:
        info["skip"] = "generator raised (C03's business): %s" % type(e).__name__
        return None, info
    fields = F.parse_state_type(text)
    nm = cg.name_manager
    pn = B.persistent_names(method)
    init_args = [("dagrt_t", method["t0"]), ("dagrt_dt", method["dt0"])]
    for n, v in sorted(method["state"].items()):
        if "<state>" + n in pn:
            init_args.append((nm.name_global("<state>" + n), v))
    init_args = [(k, v) for k, v in init_args if k in fields]
    driver = F.driver_source("m", fields, init_args, nsteps)
    res = F.compile_and_run(text, driver, sanitize=True)
    info["compiled"] = res["compile_ok"]
    if not res["compile_ok"]:
        info["skip"] = "does not compile (C03's business)"
        return None, info
    info["outcomes"] = [r["outcome"] for r in ref]
    if res["rc"] == "timeout":
        return "the sanitized stepper did not finish within 60 s", info
    err = res["stderr"]
    for key, what in (("ERROR: AddressSanitizer", "AddressSanitizer error"),
                      ("ERROR: LeakSanitizer", "LeakSanitizer: leaked storage"),
                      ("runtime error:", "UndefinedBehaviorSanitizer error"),
                      ("leaked reference", "shutdown reports a leaked reference"),
                      ("Fortran runtime error", "Fortran run-time error")):
        if key in err:
            lines = [l.strip() for l in err.split("\n") if l.strip()]
            pick = [l for l in lines if key in l or l.startswith("SUMMARY") or "leaked reference" in l
                    or "remaining refcount" in l or " in dagrt_" in l or " in drtf_" in l or "MAIN__" in l]
            return "%s: %s" % (what, " | ".join(pick[:5])[:400]), info
    if res["rc"] != 0:
        return "sanitized program ended with status %s: %s" % (res["rc"], err[-300:]), info
    if err.strip():
        return "program wrote to stderr: %s" % err.strip()[:300], info
    return None, info


def scan_result(res):
    """None, or what the sanitized run reported."""
    if res["rc"] == "timeout":
        return "the sanitized stepper did not finish within 60 s"
    err = res["stderr"]
    for key, what in (("ERROR: AddressSanitizer", "AddressSanitizer error"),
                      ("ERROR: LeakSanitizer", "LeakSanitizer: leaked storage"),
                      ("runtime error:", "UndefinedBehaviorSanitizer error"),
                      ("leaked reference", "shutdown reports a leaked reference"),
                      ("Fortran runtime error", "Fortran run-time error")):
        if key in err:
            lines = [l.strip() for l in err.split("\n") if l.strip()]
            pick = [l for l in lines if key in l or l.startswith("SUMMARY") or "leaked reference" in l
                    or "remaining refcount" in l or " in dagrt_" in l or " in drtf_" in l or "MAIN__" in l]
            return "%s: %s" % (what, " | ".join(pick[:5])[:400])
    if res["rc"] != 0:
        return "sanitized program ended with status %s: %s" % (res["rc"], err[-300:])
    if err.strip():
        return "program wrote to stderr: %s" % err.strip()[:300]
    return None


# ---------------------------------------------------------------- two user types of different Fortran structure

# One component is a structure with a pointer member (a value owns an inner block besides the structure itself),
# the other a plain array; their identifiers are drawn so that either may sort first.
TT_NAMES = [("a_nested", "b_plain"), ("n_nested", "b_plain"), ("y", "z_nested"), ("u_nested", "v_plain")]


@st.composite
def twotype_cases(draw, plain2=False):
    """plain2: both components are plain arrays, of different lengths (C03 compares values for those)."""
    nested, plain = draw(st.sampled_from(TT_NAMES))
    if "nested" not in nested:
        nested, plain = plain, nested
    if plain2:
        nested, plain = draw(st.sampled_from([("ya", "zb"), ("zb", "ya"), ("slow", "fast"), ("fast", "slow")]))
    comps = [nested, plain]
    defined = {c: {"<state>" + c} for c in comps}
    coef = st.sampled_from([0.5, 2, -1, 0.25, 3])

    def vec(c, need_temp=False):
        cands = sorted(defined[c] - ({"<state>" + c} if need_temp else set()))
        return draw(st.sampled_from(cands)) if cands else None

    def block(depth, n):
        ops = []
        for _ in range(n):
            c = draw(st.sampled_from(comps))
            k = draw(st.sampled_from(["call", "call", "update", "temp", "temp", "save", "move", "yield", "yield", "selfupd",
                                      "if", "if", "exit", "norm", "norm", "abs"]))
            if k == "norm" and plain2 and draw(st.integers(0, 2)) == 0:
                # (C03 only: the initial value may hold a NaN in its first element) is any element of the vector NaN?
                ops.append(["isnan", "<p>f_" + c, vec(c)])
                continue
            if k == "norm":
                # the same built-in applied to values of both user types (their generated routines differ)
                f = draw(st.sampled_from(["<builtin>norm_2", "<builtin>norm_2", "<builtin>len"]))   # the ones with Fortran generators
                ops.append(["norm", "<p>n_" + c, f, vec(c)])
                continue
            if k == "abs":
                tgt = draw(st.sampled_from(["t_" + c, "t2_" + c]))
                ops.append(["abs", tgt, c, vec(c)])
                defined[c].add(tgt)
                continue
            if k == "call":
                tgt = draw(st.sampled_from(["k_" + c, "k2_" + c]))
                ops.append(["call", tgt, c, vec(c)])
                defined[c].add(tgt)
            elif k == "update":
                ops.append(["lin", "<state>" + c, [[1, "<state>" + c], [draw(coef), vec(c)]]])
            elif k == "temp":
                tgt = draw(st.sampled_from(["t_" + c, "t2_" + c]))
                terms = [[draw(coef), vec(c)]]
                if draw(st.booleans()):
                    terms.append([draw(coef), vec(c)])
                ops.append(["lin", tgt, terms])
                defined[c].add(tgt)
            elif k == "save":
                ops.append(["move", "<p>old_" + c, vec(c)])
                defined[c].add("<p>old_" + c)
            elif k == "move":
                src = vec(c, need_temp=True)
                if src is not None:
                    ops.append(["move", draw(st.sampled_from(["<state>" + c, "t_" + c, "m_" + c])), src])
                    defined[c].add(ops[-1][1])
            elif k == "yield":
                ops.append(["yield", c, vec(c)])
            elif k == "selfupd":
                src = vec(c, need_temp=True)
                if src is not None and not src.startswith("<p>"):
                    ops.append(["lin", src, [[1, src], [draw(coef), vec(c)]]])
            elif k == "if" and depth < 2:
                cond = draw(st.sampled_from(["<t> < 1.5", "<t> >= 1.5", "<t> < 0.5", "<t> > 2.5"]))
                saved = {x: set(v) for x, v in defined.items()}
                then = block(depth + 1, draw(st.integers(1, 3)))
                after_then = {x: set(v) for x, v in defined.items()}
                for x in comps:
                    defined[x] = set(saved[x])
                els = block(depth + 1, draw(st.integers(1, 2))) if draw(st.booleans()) else None
                for x in comps:
                    defined[x] = (after_then[x] & defined[x]) if els is not None else set(saved[x])
                ops.append(["if", cond, then, els])
            elif k == "exit" and depth > 0:
                ops.append([draw(st.sampled_from(["fail", "restart"]))])
        return ops

    # kind inference learns the type of a state component only from an assignment to it
    prologue = []
    for c in comps:
        prologue.append(["call", "k_" + c, c, "<state>" + c])
        prologue.append(["lin", "<state>" + c, [[1, "<state>" + c], [draw(coef), "k_" + c]]])
        defined[c].add("k_" + c)
    body = prologue + block(0, draw(st.integers(3, 9)))
    for c in comps:
        if draw(st.integers(0, 3)) > 0:
            body.append(["yield", c, "<state>" + c])
    body.append(["advance"])
    ln, lp = draw(st.integers(1, 4)), draw(st.integers(1, 4))
    if plain2 and ln == lp:
        lp = ln + 1
    case = {"nested": nested, "plain": plain, "body": body, "steps": draw(st.integers(2, 5)),
            "len_nested": ln, "len_plain": lp, "plain2": plain2}
    if plain2:
        case["nan_first"] = draw(st.integers(0, 2)) == 0       # a NaN in the first element of the first component
    if plain2 and draw(st.integers(0, 9)) < 4:
        # the first component is a genuinely rectangular two-dimensional array
        case["len_nested"] = 6
        case["shape2d"] = draw(st.sampled_from([[2, 3], [3, 2]]))
    return case


def twotype_build(case):
    from pymbolic import var
    from dagrt.language import CodeBuilder, DAGCode

    def emit(cb, ops):
        for op in ops:
            k = op[0]
            if k == "call":
                cb.assign(var(op[1]), var("<func>f_" + op[2])(var("<t>"), var(op[3])))
            elif k == "lin":
                e = 0
                for co, v in op[2]:
                    e = e + (var(v) if co == 1 else co * var(v))
                cb.assign(var(op[1]), e)
            elif k == "move":
                cb.assign(var(op[1]), var(op[2]))
            elif k == "norm":
                cb.assign(var(op[1]), var(op[2])(var(op[3])))
            elif k == "isnan":
                cb.assign(var(op[1]), var("<builtin>isnan")(var(op[2])))
            elif k == "abs":
                cb.assign(var(op[1]), var("<builtin>elementwise_abs")(var(op[3])))
            elif k == "yield":
                cb.yield_state(var(op[2]), op[1], var("<t>"), "final")
            elif k == "if":
                with cb.if_(op[1]):
                    emit(cb, op[2])
                if op[3]:
                    with cb.else_():
                        emit(cb, op[3])
            elif k == "fail":
                cb.fail_step()
            elif k == "restart":
                cb.restart_step()
            elif k == "advance":
                cb.assign(var("<t>"), var("<t>") + var("<dt>"))
    with CodeBuilder(name="main") as cb:
        emit(cb, case["body"])
    return DAGCode.from_phases_list([cb.as_execution_phase("main")], "main")


def twotype_generate(case, dag):
    import dagrt.codegen.fortran as f
    from dagrt.function_registry import base_function_registry, register_ode_rhs
    from vlib import kinds as K
    nested, plain = case["nested"], case["plain"]
    freg = base_function_registry
    freg = register_ode_rhs(freg, nested, identifier="<func>f_" + nested, input_names=("y",))
    freg = freg.register_codegen("<func>f_" + nested, "fortran", f.CallCode("""
        ${result}%v = -2*${y}%v
        """ if not case.get("plain2") else """
        ${result} = -2*${y}
        """))
    freg = register_ode_rhs(freg, plain, identifier="<func>f_" + plain, input_names=("y",))
    freg = freg.register_codegen("<func>f_" + plain, "fortran", f.CallCode("""
        ${result} = -3*${y}
        """))
    cg = f.CodeGenerator(
        "m", function_registry=freg,
        module_preamble="""
        type nested_t
          real*8, pointer :: v(:)
        end type
        """,
        user_type_map={
            nested: (f.StructureType("nested_t", (
                ("v", f.PointerType(f.ArrayType((case["len_nested"],), f.BuiltinType("real*8")))),))
                if not case.get("plain2") else f.ArrayType(tuple(case.get("shape2d") or (case["len_nested"],)),
                                                           f.BuiltinType("real*8"))),
            plain: f.ArrayType((case["len_plain"],), f.BuiltinType("real*8")),
        })
    text, _ = K.quiet(cg, dag)
    return cg, text


def twotype_driver(case, cg, text):
    nm = cg.name_manager
    na, nb = nm.name_global("<state>" + case["nested"]), nm.name_global("<state>" + case["plain"])
    return """
program driver
  use m, only: dagrt_state_type, nested_t, v_initialize => initialize, v_run => run, v_shutdown => shutdown
  implicit none
  type(dagrt_state_type), target :: st
  type(dagrt_state_type), pointer :: sp
  type(nested_t) :: a0
  real*8, dimension(%(lb)d) :: b0
  real*8, dimension(%(la)d), target :: a0_storage
  integer k
  sp => st
  a0%%v => a0_storage
  a0%%v = 1
  b0 = 2
  call v_initialize(dagrt_state=sp, %(na)s=a0, %(nb)s=b0, dagrt_t=0d0, dagrt_dt=1d0)
  do k = 1, %(steps)d
    call v_run(dagrt_state=sp)
  end do
  call v_shutdown(dagrt_state=sp)
  write(*,'(A)') 'DONE'
  flush(6)
end program
""" % dict(la=case["len_nested"], lb=case["len_plain"], na=na, nb=nb, steps=case["steps"])


def check_twotype(case):
    info = {}
    try:
        dag = twotype_build(case)
    except Exception as e:
        return "CodeBuilder raised %s: %s" % (type(e).__name__, e), info
    try:
        cg, text = twotype_generate(case, dag)
    except Exception as e:
        info["skip"] = "generator raised: %s: %s" % (type(e).__name__, str(e)[:80])
        return None, info
    res = F.compile_and_run(text, twotype_driver(case, cg, text), sanitize=True)
    info["compiled"] = res["compile_ok"]
    if not res["compile_ok"]:
        info["skip"] = "does not compile: " + res["compile_out"][-200:]
        return None, info
    msg = scan_result(res)
    if msg is None and "DONE" not in res["stdout"]:
        msg = "driver did not reach its end: %s" % res["stdout"][-100:]
    return msg, info


def twotype_shard(ctx, n):
    def body(case):
        msg, info = check_twotype(case)
        if "skip" in info:
            ctx.count("twotype skipped")
            ctx.count("twotype skipped: " + info["skip"].split(":")[0][:40])
            ctx.note(case, False, ["twotype_skipped"])
            return
        kinds_ = {op[0] for op in _tt_walk(case["body"])}
        classes = ["twotype_run", "twotype_nested_first" if case["nested"] < case["plain"] else "twotype_plain_first"]
        classes += ["twotype_has_" + k for k in sorted(kinds_)]
        ctx.note(case, "call" in kinds_ or "move" in kinds_ or "lin" in kinds_, classes)
        if msg is not None:
            ctx.fail("twotype", case, msg, sig="twotype " + sig_of(msg))

    hyp_explore(ctx, twotype_cases(), body, n, "twotype")


def _tt_walk(ops):
    for op in ops:
        yield op
        if op[0] == "if":
            yield from _tt_walk(op[2])
            if op[3]:
                yield from _tt_walk(op[3])


def sig_of(msg):
    import re
    head = msg.split(":")[0]
    m = re.search(r"AddressSanitizer: ([a-z-]+)", msg)
    if m:
        return head + " " + m.group(1)
    return head[:60]


def replay(sub, case):
    if sub == "twotype":
        return check_twotype(case)[0]
    return check_case(case)[0]


def shrink(sub, case):
    if sub == "twotype":
        return shrink_twotype(case)
    from checks.c01 import shrink_method_case
    c = {"method": case["method"], "plan": {"max_steps": case["steps"]}}

    def failing(cc):
        return check_case({"method": cc["method"], "steps": cc["plan"]["max_steps"]})[0]
    out = shrink_method_case(c, failing, sig_of, budget=30)
    return {"method": out["method"], "steps": out["plan"]["max_steps"]}


def shrink_twotype(case):
    import copy
    msg = check_twotype(case)[0]
    if msg is None:
        return case
    sig = sig_of(msg)
    budget = [25]

    def still(c):
        if budget[0] <= 0:
            return False
        budget[0] -= 1
        try:
            m = check_twotype(c)[0]
        except Exception:
            return False
        return m is not None and sig_of(m) == sig
    changed = True
    while changed and budget[0] > 0:
        changed = False
        for i in reversed(range(len(case["body"]))):
            c = copy.deepcopy(case)
            del c["body"][i]
            if still(c):
                case, changed = c, True
                break
            if case["body"][i][0] == "if":
                c = copy.deepcopy(case)
                c["body"][i:i + 1] = c["body"][i][2]
                if still(c):
                    case, changed = c, True
                    break
    return case


def shard(ctx, n):
    strat = st.fixed_dictionaries({"method": methods(profile_for(ctx)), "steps": st.integers(2, 6)})

    def body(case):
        msg, info = check_case(case)
        if "skip" in info:
            ctx.count("skipped")
            ctx.count("skipped: " + info["skip"].split(":")[0][:50])
            ctx.note(case, False, ["skipped"])
            return
        feats = method_features(case["method"])
        classes = ["sanitized_run"]
        for f in ("fail", "switch", "restart", "if", "else", "yield", "uvec_move", "self_update", "loop", "multi_phase",
                  "nested_call", "ifexpr"):
            if f in feats:
                classes.append("has_" + f)
        if "failed" in info.get("outcomes", []):
            classes.append("ran_failed_step")
        from vlib.progen import UVEC_TEMPS, walk_ops
        utemps = {op[1] for ph in case["method"]["phases"] for op in walk_ops(ph["body"])
                  if op[0] == "assign" and op[1] in UVEC_TEMPS + ["v2", "temp", "tmp_1", "temp_k1"]}
        utemps |= {a for ph in case["method"]["phases"] for op in walk_ops(ph["body"]) if op[0] == "call"
                   for a in op[1] if a in UVEC_TEMPS}
        nontriv = bool(utemps) and any(f in feats for f in ("fail", "switch", "restart", "if", "uvec_move"))
        ctx.note(case, nontriv, classes)
        if msg is not None:
            ctx.fail("c12", case, msg, sig=sig_of(msg))

    hyp_explore(ctx, strat, body, n, "c12")


def run(ctx):
    if not F.gfortran_available():
        raise HarnessError("gfortran is not installed")
    if not lsan_works():
        raise HarnessError("LeakSanitizer self-test failed: an intentionally leaking program is not reported")
    if ctx.quick:
        ctx.parallel(shard, 16, 12)
        ctx.parallel(twotype_shard, 16, 4)
    else:
        ctx.parallel(shard, 16, 400)
        ctx.parallel(twotype_shard, 16, 150)

"""C14 - kind inference is order-independent; kind unification is a partial join."""
import hashlib
import itertools
import json
import os
import random
import subprocess
import sys

from hypothesis import strategies as st

from vlib import backends as B
from vlib import kinds as K
from vlib.progen import count_ops, method_features, methods
from vlib.runner import ROOT, REPO, canon, hyp_explore

LEVEL = "exploration"
RULE = ("exhaustive: all 81 pairs and 729 triples over {None, Boolean, Integer, Scalar(real/complex), Array(real/complex), "
        "UserType(a), UserType(b)} for idempotence, commutativity and associativity of unify 'wherever defined' (outcome = "
        "value or raises); programs: Hypothesis-generated typed builder programs with real/complex scalars, integers from "
        "loops, arrays, user-type vectors and registered functions, presented to SymbolKindFinder in program order, reversed "
        "and in seeded shuffles of the statement lists and of the phase order (8 orders quick, 24 thorough), and re-inferred in "
        "child processes under different PYTHONHASHSEED values with the builder's frozenset containers; all tables (or "
        "failure classes) must coincide. Non-trivial = >= 3 assignments and >= 1 variable whose kind depends on another "
        "assignment; distinct by canonical JSON of the program.")
ASSUMPTIONS = ["a variable is never assigned values of incompatible kinds (flag vs number, two user types, array vs user type): "
               "such programs are pinned as a known finding and not generated",
               "Boolean is outside unify's domain by documentation ('arithmetic with flags is not permitted')"]
BUDGET_S = {"quick": 150, "thorough": 1500}

PROFILE = dict(complex_vars=True, assign_all_state=True, exits=False, max_ops=10, alias_arrays=False,
               raise_=False, ifexpr=False)   # KindInferenceMapper has no rule for conditional expressions (inference raises)


# ---------------------------------------------------------------- unify, exhaustively

def universe():
    from dagrt.data import Array, Boolean, Integer, Scalar, UserType
    return [("None", None), ("Boolean", Boolean()), ("Integer", Integer()),
            ("Scalar(real)", Scalar(True)), ("Scalar(complex)", Scalar(False)),
            ("Array(real)", Array(True)), ("Array(complex)", Array(False)),
            ("UserType(a)", UserType("a")), ("UserType(b)", UserType("b"))]


def try_unify(a, b):
    from dagrt.data import unify
    try:
        return ("ok", unify(a, b))
    except Exception as e:
        return ("raises", type(e).__name__)


def unify_failures():
    """Yields (case, message) for every violated law over the universe."""
    U = universe()
    n = 0
    for (na, a) in U:
        n += 1
        r = try_unify(a, a)
        if r[0] == "ok" and r[1] != a:
            yield {"law": "idempotent", "args": [na]}, "unify(%s, %s) = %s" % (na, na, K.kind_repr(r[1]))
        if r[0] == "raises" and na != "Boolean":
            yield {"law": "idempotent", "args": [na]}, "unify(%s, %s) raises %s" % (na, na, r[1])
    for (na, a), (nb, b) in itertools.product(U, U):
        r1, r2 = try_unify(a, b), try_unify(b, a)
        if r1[0] != r2[0]:
            yield ({"law": "commutative", "args": [na, nb]},
                   "unify(%s, %s) %s but unify(%s, %s) %s" % (na, nb, show(r1), nb, na, show(r2)))
        elif r1[0] == "ok" and r1[1] != r2[1]:
            yield ({"law": "commutative", "args": [na, nb]},
                   "unify(%s, %s) = %s but unify(%s, %s) = %s" % (na, nb, K.kind_repr(r1[1]), nb, na, K.kind_repr(r2[1])))
    for (na, a), (nb, b), (nc, c) in itertools.product(U, U, U):
        ab = try_unify(a, b)
        left = try_unify(ab[1], c) if ab[0] == "ok" else ab
        bc = try_unify(b, c)
        right = try_unify(a, bc[1]) if bc[0] == "ok" else bc
        if left[0] != right[0]:
            yield ({"law": "associative", "args": [na, nb, nc]},
                   "unify(unify(%s, %s), %s) %s but unify(%s, unify(%s, %s)) %s" % (na, nb, nc, show(left), na, nb, nc, show(right)))
        elif left[0] == "ok" and left[1] != right[1]:
            yield ({"law": "associative", "args": [na, nb, nc]},
                   "grouping changes unify(%s, %s, %s): %s vs %s" % (na, nb, nc, K.kind_repr(left[1]), K.kind_repr(right[1])))


def show(r):
    return "= " + K.kind_repr(r[1]) if r[0] == "ok" else "raises " + r[1]


def check_unify_case(case):
    for c, msg in unify_failures():
        if c == case:
            return msg
    return None


# ---------------------------------------------------------------- programs x orders

def infer(names, lists, freg):
    from dagrt.data import SymbolKindFinder
    try:
        skt, out = K.quiet(SymbolKindFinder(freg), list(names), [list(l) for l in lists])
        return ("ok", K.table_repr(skt))
    except Exception:
        # the property compares outcome classes (table vs. failure), not exception types
        return ("raises", "")


def orders_for(case_key, names, lists, n):
    rng = random.Random(int.from_bytes(hashlib.sha256(case_key.encode()).digest()[:4], "big"))
    out = [("program order", list(names), [list(l) for l in lists]),
           ("reversed statements", list(names), [list(reversed(l)) for l in lists]),
           ("reversed phases", list(reversed(names)), [list(l) for l in reversed(lists)])]
    for k in range(n - 3):
        idx = list(range(len(names)))
        rng.shuffle(idx)
        ls = []
        for i in idx:
            l = list(lists[i])
            rng.shuffle(l)
            ls.append(l)
        out.append(("shuffle %d" % k, [names[i] for i in idx], ls))
    return out


def check_program(case, norders):
    method = case["method"]
    try:
        dag = B.build_dag(method)
    except Exception as e:
        return "CodeBuilder raised %s: %s" % (type(e).__name__, e), {}
    freg = K.make_registry()
    names = sorted(dag.phases)
    lists = [list(dag.phases[n].statements) for n in names]
    base = None
    info = {}
    for label, ns, ls in orders_for(canon(method), names, lists, norders):
        r = infer(ns, ls, freg)
        if base is None:
            base = (label, r)
            info["outcome"] = r[0]
            if r[0] == "ok":
                info["table"] = r[1]
            continue
        if r != base[1]:
            return ("kind table depends on presentation order: %s vs %s: %s" % (base[0], label, diff(base[1], r))), info
    # the same presentation in other containers: the phases may be any iterables (the Fortran generator passes
    # generators), and infer_kinds() takes them from the DAGCode's phase dictionary in whatever order that has
    from dagrt.data import SymbolKindFinder, infer_kinds
    import dagrt.language as lang
    for label, ns, ls in orders_for(canon(method), names, lists, min(norders, 4)):
        for cname, conv in (("tuples", tuple), ("generators", lambda l: (x for x in l)), ("iterators", iter)):
            try:
                skt, _ = K.quiet(SymbolKindFinder(freg), list(ns), [conv(l) for l in ls])
                r = ("ok", K.table_repr(skt))
            except Exception:
                r = ("raises", "")
            if r != base[1]:
                return ("kind table depends on the container the statements come in: %s as lists vs %s as %s: %s"
                        % (base[0], label, cname, diff(base[1], r))), info
        try:
            dag2 = lang.DAGCode({n: dag.phases[n] for n in ns}, dag.initial_phase)
            # (statement order inside a phase is the phase's own; only the order of the phases varies here)
            skt, _ = K.quiet(infer_kinds, dag2, freg)
            r = ("ok", K.table_repr(skt))
        except Exception:
            r = ("raises", "")
        first = infer(ns, [list(dag.phases[n].statements) for n in ns], freg)
        if r != first:
            return ("infer_kinds(dag) with phases inserted as %s differs from SymbolKindFinder on the same phases: %s"
                    % (list(ns), diff(first, r))), info
    return None, info


def diff(a, b):
    if a[0] != b[0]:
        return "%s vs %s" % (a[0] if a[0] == "ok" else "raises " + a[1], b[0] if b[0] == "ok" else "raises " + b[1])
    if a[0] == "raises":
        return "%s vs %s" % (a[1], b[1])
    out = []
    ta, tb = a[1], b[1]
    for n in sorted(set(ta["global"]) | set(tb["global"])):
        if ta["global"].get(n) != tb["global"].get(n):
            out.append("%s: %s vs %s" % (n, ta["global"].get(n), tb["global"].get(n)))
    for p in sorted(set(ta["phases"]) | set(tb["phases"])):
        pa, pb = ta["phases"].get(p, {}), tb["phases"].get(p, {})
        for n in sorted(set(pa) | set(pb)):
            if pa.get(n) != pb.get(n):
                out.append("[%s] %s: %s vs %s" % (p, n, pa.get(n), pb.get(n)))
    return "; ".join(out[:4])


def sig_of(msg):
    for key in ("depends on presentation order", "hash seed", "CodeBuilder raised", "idempotent", "raises", "grouping"):
        if key in msg:
            return key
    return msg[:40]


def replay(sub, case):
    if sub == "unify":
        return check_unify_case(case)
    if sub == "adversarial":
        return check_adversarial(case, 24)[0]
    if sub == "hashseed":
        return check_hashseed([case], [0, 1, 2, 3])[0]
    return check_program(case, 24)[0]


def shrink(sub, case):
    if sub != "program":
        return case
    from checks.c01 import shrink_method_case
    c = {"method": case["method"], "plan": {"max_steps": 1}}
    out = shrink_method_case(c, lambda cc: check_program({"method": cc["method"]}, 24)[0], sig_of)
    return {"method": out["method"]}


# ---------------------------------------------------------------- adversarial statement lists (no def-before-use)

FAMILIES = ["scalar", "scalar", "array", "utype", "bool"]


@st.composite
def adversarial(draw, allow_conflicts):
    nvars = draw(st.integers(2, 5))
    fam = {"v%d" % i: draw(st.sampled_from(FAMILIES)) for i in range(nvars)}
    names = sorted(fam)
    scal = [n for n in names if fam[n] == "scalar"]

    def scalar_leaf():
        opts = [["const", 2], ["const", 0.5], ["const", ["complex", 0, 1]], ["var", "<dt>"], ["var", "<t>"]]
        opts += [["var", n] for n in scal] * 2
        return draw(st.sampled_from(opts))

    def scalar_expr(depth, loopvar=None):
        if depth <= 0:
            if loopvar and draw(st.integers(0, 3)) == 0:
                return ["var", loopvar]
            return scalar_leaf()
        k = draw(st.sampled_from(["leaf", "sum", "prod", "quot"]))
        if k == "leaf":
            return scalar_expr(0, loopvar)
        if k == "quot":
            return ["quot", scalar_expr(depth - 1, loopvar), scalar_expr(depth - 1, loopvar)]
        return [k] + [scalar_expr(depth - 1, loopvar) for _ in range(draw(st.integers(2, 3)))]

    def family_expr(f, target):
        same = [n for n in names if fam[n] == f] or [target]
        if f == "scalar":
            return scalar_expr(2)
        if f == "bool":
            return ["cmp", scalar_expr(1), draw(st.sampled_from(["<", "==", ">="])), scalar_expr(1)]
        terms = []
        for _ in range(draw(st.integers(1, 3))):
            v = ["var", draw(st.sampled_from(same))]
            if draw(st.booleans()):
                c = [scalar_expr(1), v]
                if draw(st.booleans()):
                    c.reverse()
                terms.append(["prod"] + c)
            else:
                terms.append(v)
        if draw(st.integers(0, 4)) == 0:
            terms.append(scalar_expr(1))
        if draw(st.integers(0, 5)) == 0:
            # a purely scalar value assigned to an array / user-type variable (unify widens it)
            return scalar_expr(1)
        terms = list(draw(st.permutations(terms)))
        return terms[0] if len(terms) == 1 else ["sum"] + terms

    stmts = []
    nst = draw(st.integers(3, 9))
    for k in range(nst):
        target = draw(st.sampled_from(names))
        f = fam[target]
        if allow_conflicts and draw(st.integers(0, 9)) == 0:
            f = draw(st.sampled_from(["scalar", "array", "utype", "bool"]))
        r = draw(st.integers(0, 9))
        if f == "array" and r < 3:
            stmts.append({"kind": "call", "id": "s%d" % k, "assignees": [target], "f": "<builtin>array",
                          "args": [scalar_expr(0)]})
        elif f == "array" and r < 5:
            # a built-in whose result kind follows its argument's kind (which may still be refined later)
            arrs = [n for n in names if fam[n] == "array"] or [target]
            bf = draw(st.sampled_from(["<builtin>transpose", "<builtin>transpose", "<builtin>elementwise_abs"]))
            args = [["var", draw(st.sampled_from(arrs))]] + ([["const", 2]] if bf.endswith("transpose") else [])
            stmts.append({"kind": "call", "id": "s%d" % k, "assignees": [target], "f": bf, "args": args})
        elif f == "utype" and r < 3:
            ut = [n for n in names if fam[n] == "utype"] or [target]
            stmts.append({"kind": "call", "id": "s%d" % k, "assignees": [target], "f": "<func>f",
                          "args": [scalar_expr(0), ["var", draw(st.sampled_from(ut))]]})
        elif f == "scalar" and r < 2:
            stmts.append({"kind": "assign", "id": "s%d" % k, "assignee": target, "rhs": scalar_expr(1, "i"),
                          "loops": [["i", ["const", 0], ["const", 3]]]})
        else:
            stmts.append({"kind": "assign", "id": "s%d" % k, "assignee": target, "rhs": family_expr(f, target),
                          "loops": []})
    # well-typedness of the argument-dependent built-ins: what they are applied to must get an array kind from
    # somewhere (an array() call, or an assignment that mentions a variable that does) - transposing a variable whose
    # only source is "itself plus a scalar" is an ill-typed program, on which inference fails or not depending on order
    grounded = {s_["assignees"][0] for s_ in stmts if s_["kind"] == "call" and s_["f"] == "<builtin>array"}
    changed = True
    while changed:
        changed = False
        for s_ in stmts:
            if s_["kind"] == "assign" and fam[s_["assignee"]] == "array" and s_["assignee"] not in grounded \
                    and _mentions(s_["rhs"]) & grounded:
                grounded.add(s_["assignee"])
                changed = True
            if s_["kind"] == "call" and s_["f"] in ("<builtin>transpose", "<builtin>elementwise_abs") \
                    and s_["assignees"][0] not in grounded and s_["args"][0][1] in grounded:
                grounded.add(s_["assignees"][0])
                changed = True
    for s_ in stmts:
        if s_["kind"] == "call" and s_["f"] in ("<builtin>transpose", "<builtin>elementwise_abs") \
                and s_["args"][0][1] not in grounded:
            if grounded:
                s_["args"][0] = ["var", sorted(grounded)[0]]
            else:
                s_["f"], s_["args"] = "<builtin>array", [["const", 3]]
    nph = draw(st.integers(1, 2))
    phases = [[] for _ in range(nph)]
    for s_ in stmts:
        phases[draw(st.integers(0, nph - 1))].append(s_)
    return {"phases": phases, "persistent": draw(st.booleans())}


def _mentions(t):
    from vlib import tree as T_
    return T_.variables(t)


def build_adversarial(case):
    import dagrt.language as lang
    from vlib import tree as T
    ren = (lambda n: "<p>" + n if n.startswith("v") else n) if case["persistent"] else (lambda n: n)

    def tr(t):
        if t[0] == "var":
            return ["var", ren(t[1])]
        return T.rebuild(t, [tr(c) for c in T.children(t)])
    names, lists = [], []
    for i, ph in enumerate(case["phases"]):
        names.append("ph%d" % i)
        l = []
        for s_ in ph:
            if s_["kind"] == "assign":
                l.append(lang.Assign(id=s_["id"], assignee=ren(s_["assignee"]), assignee_subscript=(),
                                     expression=T.to_pymbolic(tr(s_["rhs"])),
                                     loops=[(x[0], T.to_pymbolic(x[1]), T.to_pymbolic(x[2])) for x in s_["loops"]]))
            else:
                l.append(lang.AssignFunctionCall(id=s_["id"], assignees=tuple(ren(a) for a in s_["assignees"]),
                                                 function_id=s_["f"],
                                                 parameters=tuple(T.to_pymbolic(tr(a)) for a in s_["args"])))
        lists.append(l)
    return names, lists


def check_adversarial(case, norders):
    names, lists = build_adversarial(case)
    freg = K.make_registry()
    base = None
    info = {}
    for label, ns, ls in orders_for(canon(case), names, lists, norders):
        r = infer(ns, ls, freg)
        if base is None:
            base = (label, r)
            info["outcome"] = r[0]
            continue
        if r != base[1]:
            return ("kind table depends on presentation order: %s vs %s: %s" % (base[0], label, diff(base[1], r))), info
    return None, info


def adversarial_shard(ctx, n, norders):
    allow = not ctx.is_excluded("conflicting_kinds")

    def body(case):
        msg, info = check_adversarial(case, norders)
        nst = sum(len(p) for p in case["phases"])
        ctx.note(case, nst >= 3 and info.get("outcome") == "ok", ["adversarial", "adversarial_inference_" + info.get("outcome", "?")])
        ctx.count("orders_compared", norders)
        if msg is not None:
            ctx.fail("adversarial", case, msg, sig=sig_of(msg))

    hyp_explore(ctx, adversarial(allow), body, n, "adversarial")


# ---------------------------------------------------------------- hash seeds (child processes)

def child_main():
    """stdin: JSON list of methods; stdout: JSON list of table digests (builder frozensets, infer_kinds)."""
    sys.path.insert(0, ROOT)
    sys.path.insert(0, REPO)
    from dagrt.data import infer_kinds
    cases = json.load(sys.stdin)
    freg = K.make_registry()
    out = []
    for method in cases:
        try:
            dag = B.build_dag(method, as_list=False)
            skt, _ = K.quiet(infer_kinds, dag, freg)
            out.append(["ok", K.table_repr(skt)])
        except Exception as e:
            out.append(["raises", ""])
    json.dump(out, sys.stdout)


def run_child(cases, hashseed):
    env = dict(os.environ, PYTHONHASHSEED=str(hashseed), PYTHONPATH=ROOT)
    p = subprocess.run([sys.executable, "-W", "ignore", "-c", "from checks.c14 import child_main; child_main()"],
                       input=json.dumps(cases), capture_output=True, text=True, env=env, cwd=ROOT)
    if p.returncode != 0:
        from vlib.runner import HarnessError
        raise HarnessError("c14 child failed: " + p.stderr[-400:])
    return json.loads(p.stdout)


def check_hashseed(cases, seeds):
    """Returns list of message-or-None per case."""
    methods_ = [c["method"] for c in cases]
    results = [run_child(methods_, s) for s in seeds]
    out = []
    for i in range(len(cases)):
        msg = None
        for k in range(1, len(seeds)):
            if results[k][i] != results[0][i]:
                msg = "kind table differs between hash seed %d and %d: %s" % (
                    seeds[0], seeds[k], diff(tuple(results[0][i]), tuple(results[k][i])))
                break
        out.append(msg)
    return out


# ---------------------------------------------------------------- exploration

def program_shard(ctx, n, norders, nhash):
    strat = st.fixed_dictionaries({"method": methods(PROFILE)})
    kept = []

    def body(case):
        msg, info = check_program(case, norders)
        method = case["method"]
        feats = method_features(method)
        classes = ["program", "inference_" + info.get("outcome", "error")]
        for f in ("complex", "loop", "array", "multi_phase", "nested_call", "ifexpr"):
            if f in feats:
                classes.append("has_" + f)
        nassign = sum(1 for ph in method["phases"] for op in ph["body"] if op[0] in ("assign", "call"))
        nontriv = nassign >= 3 and info.get("outcome") == "ok"
        ctx.note(case, nontriv, classes)
        ctx.count("orders_compared", norders)
        if msg is not None:
            ctx.fail("program", case, msg, sig=sig_of(msg))
        elif len(kept) < nhash and info.get("outcome") == "ok":
            kept.append(case)

    hyp_explore(ctx, strat, body, n, "program")
    if kept:
        seeds = [0, 1, 2, 3] if ctx.quick else list(range(16))
        msgs = check_hashseed(kept, seeds)
        ctx.count("hashseed_programs", len(kept))
        ctx.count("hashseed_child_runs", len(seeds))
        for case, msg in zip(kept, msgs):
            if msg is not None:
                ctx.fail("hashseed", case, msg, sig=sig_of(msg))


def run(ctx):
    nfail = 0
    for case, msg in unify_failures():
        ctx.fail("unify", case, msg, sig=case["law"] + ":" + ",".join(sorted(set(a.split("(")[0] for a in case["args"]))))
        nfail += 1
    U = universe()
    for (na, a), (nb, b) in itertools.product(U, U):
        ctx.note({"unify": [na, nb]}, na != nb and "None" not in (na, nb), ["unify_pair"])
    for t in itertools.product(U, U, U):
        ctx.note({"unify": [x[0] for x in t]}, len({x[0] for x in t}) == 3 and all(x[0] != "None" for x in t), ["unify_triple"])
    ctx.extra["exhaustive"] = True
    ctx.extra["exhaustive_space"] = "unify over 9 kinds: 9 singles, 81 pairs, 729 triples"
    if ctx.quick:
        ctx.parallel(program_shard, 16, 80, 8, 6)
        ctx.parallel(adversarial_shard, 16, 250, 8)
    else:
        ctx.parallel(program_shard, 16, 3000, 24, 60)
        ctx.parallel(adversarial_shard, 16, 6000, 24)

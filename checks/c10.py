"""C10 - well-formedness verification accepts exactly the well-formed methods."""
import itertools
import signal

from hypothesis import strategies as st

from vlib.runner import hyp_explore

LEVEL = "exploration"
RULE = ("exhaustive: (A) every directed graph (self-loops included) on 1..4 statements of one phase [66 066 graphs]; "
        "(B) every assignment of dependency sets over {own ids, one dangling id, one id of a second phase} to 1..3 "
        "statements, with the second phase's statement id distinct from / equal to a first-phase id; (C) every graph on "
        "<= 3 statements x switch target in {none, existing, missing} x flag pattern in {none, once, twice in one phase, "
        "once in each of two phases}; random: Hypothesis methods with <= 3 phases x <= 12 statements. Oracle: independent "
        "checker (per-phase id lookup, Kahn's algorithm, set membership, per-phase writer count). Non-trivial = >= 2 "
        "dependency edges; distinct by canonical JSON of the method.")
ASSUMPTIONS = ["statement ids are unique within a phase (the property does not speak about duplicates); they may repeat across phases",
               "statements are trivial assignments / switches / flag assignments, so nothing but dependency resolution can fail downstream",
               "'never hangs' is decided with a 20 s alarm per case (verification of these graphs takes microseconds)"]
BUDGET_S = {"quick": 150, "thorough": 1500}


# ---------------------------------------------------------------- independent checker

def wellformed(case):
    names = {p["name"] for p in case["phases"]}
    for p in case["phases"]:
        ids = [s["id"] for s in p["stmts"]]
        idset = set(ids)
        indeg = {i: 0 for i in ids}
        succ = {i: [] for i in ids}
        for s in p["stmts"]:
            for d in s["deps"]:
                if d not in idset:
                    return False            # dangling or cross-phase
                succ[d].append(s["id"])
                indeg[s["id"]] += 1
        ready = [i for i in ids if indeg[i] == 0]
        seen = 0
        while ready:
            i = ready.pop()
            seen += 1
            for j in succ[i]:
                indeg[j] -= 1
                if indeg[j] == 0:
                    ready.append(j)
        if seen != len(ids):
            return False                    # cycle (self-loops included)
        writers = {}
        for s in p["stmts"]:
            k = s["kind"]
            if k.startswith("switch:") and k[7:] not in names:
                return False
            if k.startswith(("flag:", "flagcall:", "gflag:")):
                fname = k.split(":")[1]
                writers[fname] = writers.get(fname, 0) + 1
        if any(v > 1 for v in writers.values()):
            return False
    return True


def build(case):
    import dagrt.language as lang
    from pymbolic.primitives import Comparison
    phases = {}
    for p in case["phases"]:
        stmts = []
        for k, s in enumerate(p["stmts"]):
            kind = s["kind"]
            if kind == "assign":
                st_ = lang.Assign(id=s["id"], assignee="x_%s" % s["id"], assignee_subscript=(), expression=k + 1,
                                  depends_on=s["deps"])
            elif kind.startswith("switch:"):
                st_ = lang.SwitchPhase(next_phase=kind[7:], id=s["id"], depends_on=s["deps"],
                                       condition=Comparison(1, "<", 0))
            elif kind.startswith("gflag:"):
                # a guarded assignment to the flag ("gflag:c:d": <cond>c <- ... if <cond>d; "gflag:c:!c": ... if not <cond>c):
                # still an assignment to it - two of them are one too many whatever their guards are
                from pymbolic.primitives import LogicalNot, Variable
                _, fl, g = kind.split(":")
                cond = LogicalNot(Variable("<cond>" + g[1:])) if g.startswith("!") else Variable("<cond>" + g)
                st_ = lang.Assign(id=s["id"], assignee="<cond>" + fl, assignee_subscript=(),
                                  expression=Comparison(k, "<", 2), condition=cond, depends_on=s["deps"])
            elif kind.startswith("flagcall:"):
                # the flag is assigned by a function-call statement (also an assignment to it)
                st_ = lang.AssignFunctionCall(id=s["id"], assignees=("<cond>" + kind.split(":")[1],),
                                              function_id="<builtin>isnan", parameters=(float(k),),
                                              depends_on=s["deps"])
            elif kind.startswith("flag:"):
                # "flag:c" -> every such statement prints identically; "flag:c:3" -> distinct expression
                parts = kind.split(":")
                rhs = Comparison(int(parts[2]), "<", 2) if len(parts) > 2 else Comparison(0, "<", 2)
                st_ = lang.Assign(id=s["id"], assignee="<cond>" + parts[1], assignee_subscript=(),
                                  expression=rhs, depends_on=s["deps"])
            else:
                raise ValueError(kind)
            stmts.append(st_)
        phases[p["name"]] = lang.ExecutionPhase(name=p["name"], next_phase=p["next"], statements=stmts)
    return lang.DAGCode(phases, case["initial"])


class Hang(Exception):
    pass


def _alarm(signum, frame):
    raise Hang()


def check_case(case):
    from dagrt.codegen.analysis import CodeGenerationError, verify_code
    wf = wellformed(case)
    dag = build(case)
    old = signal.signal(signal.SIGALRM, _alarm)
    signal.alarm(20)
    try:
        try:
            r = verify_code(dag)
            outcome = ("accepted", r)
        except CodeGenerationError as e:
            outcome = ("rejected", e)
        except Hang:
            return "verify_code did not return within 20 s"
        except BaseException as e:
            return "verify_code raised %s (%s) instead of CodeGenerationError on %s method" % (
                type(e).__name__, str(e)[:80], "a well-formed" if wf else "an ill-formed")
        if outcome[0] == "accepted":
            if not wf:
                return "verify_code accepted an ill-formed method"
            if r is not None:
                return "verify_code returned %r" % (r,)
        else:
            if wf:
                return "verify_code rejected a well-formed method: %s" % (outcome[1].errors,)
            errs = getattr(outcome[1], "errors", None)
            if not errs or not all(isinstance(m, str) and m for m in errs):
                return "CodeGenerationError carries no message: %r" % (errs,)
            return None
        # accepted: consumers must not trip over dependency resolution
        try:
            from dagrt.exec_numpy import NumpyInterpreter
            for p in case["phases"]:
                interp = NumpyInterpreter(dag, {})
                interp.set_up(t_start=0, dt_start=1, context={})
                interp.next_phase = p["name"]
                try:
                    for _ in interp.run_single_step():
                        pass
                except Exception as e:
                    if type(e).__name__ not in ("TransitionEvent", "FailStepException"):
                        raise
                want = {"x_%s" % s["id"] for s in p["stmts"] if s["kind"] == "assign"}
            from dagrt.codegen import PythonCodeGenerator
            PythonCodeGenerator("M")(dag)
            import dagrt.codegen.fortran as f
            f.CodeGenerator("m", user_type_map={})(dag)
        except Hang:
            return "a consumer of an accepted method did not return within 20 s"
        except (KeyError, AssertionError, RecursionError, IndexError) as e:
            return "accepted method breaks a consumer: %s: %s" % (type(e).__name__, str(e)[:100])
    finally:
        signal.alarm(0)
        signal.signal(signal.SIGALRM, old)
    return None


def sig_of(msg):
    for key in ("did not return", "instead of CodeGenerationError", "accepted an ill-formed", "rejected a well-formed",
                "carries no message", "breaks a consumer", "returned"):
        if key in msg:
            if key == "instead of CodeGenerationError":
                return msg.split(" (")[0] + (" wf" if "a well-formed" in msg else " ill")
            return key
    return msg[:40]


def replay(sub, case):
    return check_case(case)


def shrink(sub, case):
    import copy
    sig = sig_of(check_case(case) or "")

    def still(c):
        try:
            m = check_case(c)
        except Exception:
            return False
        return m is not None and sig_of(m) == sig

    changed = True
    while changed:
        changed = False
        for pi, p in enumerate(case["phases"]):
            for si, s in enumerate(p["stmts"]):
                for d in list(s["deps"]):
                    c = copy.deepcopy(case)
                    c["phases"][pi]["stmts"][si]["deps"].remove(d)
                    if still(c):
                        case, changed = c, True
                        break
                if changed:
                    break
                c = copy.deepcopy(case)
                sid = c["phases"][pi]["stmts"].pop(si)["id"]
                for q in c["phases"]:
                    pass
                if c["phases"][pi]["stmts"] and still(c):
                    case, changed = c, True
                    break
            if changed:
                break
    return case


# ---------------------------------------------------------------- exhaustive spaces

def subsets(items):
    for r in range(len(items) + 1):
        yield from itertools.combinations(items, r)


def phase(name, nxt, stmts):
    return {"name": name, "next": nxt, "stmts": stmts}


def space_A(n):
    ids = ["s%d" % i for i in range(n)]
    all_sub = list(subsets(ids))
    for deps in itertools.product(all_sub, repeat=n):
        yield {"initial": "p0", "phases": [phase("p0", "p0", [
            {"id": ids[i], "deps": list(deps[i]), "kind": "assign"} for i in range(n)])]}


def space_B(n, other_id):
    ids = ["s%d" % i for i in range(n)]
    pool = ids + ["zz"] + ([other_id] if other_id not in ids else ["q_only"])
    # when other_id equals an own id, the 'cross-phase' name is resolvable inside the phase;
    # q_only is then a second, unresolvable, other-phase id
    second = [{"id": other_id, "deps": [], "kind": "assign"}]
    if other_id in ids:
        second.append({"id": "q_only", "deps": [], "kind": "assign"})
    all_sub = list(subsets(pool))
    for deps in itertools.product(all_sub, repeat=n):
        yield {"initial": "p0", "phases": [
            phase("p0", "p1", [{"id": ids[i], "deps": list(deps[i]), "kind": "assign"} for i in range(n)]),
            phase("p1", "p0", [dict(s) for s in second])]}


def space_C(n):
    ids = ["s%d" % i for i in range(n)]
    all_sub = list(subsets(ids))
    for deps in itertools.product(all_sub, repeat=n):
        for sw in ("none", "p1", "p0", "nowhere"):
            for fl in ("none", "once", "twice", "twice_diff", "each"):
                stmts = [{"id": ids[i], "deps": list(deps[i]), "kind": "assign"} for i in range(n)]
                p1 = [{"id": "q0", "deps": [], "kind": "assign"}]
                if sw != "none":
                    stmts.append({"id": "sw", "deps": [ids[-1]], "kind": "switch:" + sw})
                if fl in ("once", "twice", "each"):
                    stmts.append({"id": "f0", "deps": [], "kind": "flag:c"})
                if fl == "twice":
                    stmts.append({"id": "f1", "deps": ["f0"], "kind": "flag:c"})
                if fl == "twice_diff":
                    stmts.append({"id": "f0", "deps": [], "kind": "flag:c:1"})
                    stmts.append({"id": "f1", "deps": [], "kind": "flag:c:3"})
                if fl == "each":
                    p1.append({"id": "f0", "deps": ["q0"], "kind": "flag:c"})
                yield {"initial": "p0", "phases": [phase("p0", "p1", stmts), phase("p1", "p0", p1)]}


def all_spaces(quick):
    yield ("A", 1), space_A(1)
    yield ("A", 2), space_A(2)
    yield ("A", 3), space_A(3)
    if not quick:
        yield ("A", 4), space_A(4)
    for n in (1, 2, 3):
        yield ("B", n, "q0"), space_B(n, "q0")
        if n < 3 or not quick:
            yield ("B", n, "s0"), space_B(n, "s0")
    for n in (1, 2, 3):
        yield ("C", n), space_C(n)


def dense_cases():
    """Large dense graphs (every stage depends on all earlier ones): the number of dependency *paths* is astronomic,
    the number of edges is not - verification must still return at once ("never hangs")."""
    for n in (24, 32, 40):
        ids = ["d%02d" % i for i in range(n)]
        stmts = [{"id": ids[i], "deps": ids[:i], "kind": "assign"} for i in range(n)]
        yield {"initial": "p0", "phases": [phase("p0", "p0", stmts)]}
        cyc = [dict(s_, deps=list(s_["deps"])) for s_ in stmts]
        cyc[3]["deps"].append(ids[n - 1])            # one back edge: a cycle through almost everything
        yield {"initial": "p0", "phases": [phase("p0", "p0", cyc)]}
        yield {"initial": "p0", "phases": [phase("p0", "p0", list(reversed(stmts)))]}


def exhaustive_shard(ctx, quick):
    if ctx.shard == 0:
        for case in dense_cases():
            one(ctx, case, "dense")
    idx = 0
    for tag, gen in all_spaces(quick):
        for case in gen:
            idx += 1
            if idx % ctx.nshards != ctx.shard:
                continue
            if ctx.out_of_time():
                return
            one(ctx, case, "exhaustive")


def one(ctx, case, sub):
    nedges = sum(len(s["deps"]) for p in case["phases"] for s in p["stmts"])
    wf = wellformed(case)
    classes = [sub, "wellformed" if wf else "illformed"]
    ids = [{s["id"] for s in p["stmts"]} for p in case["phases"]]
    for pi, p in enumerate(case["phases"]):
        for s in p["stmts"]:
            for d in s["deps"]:
                if d not in ids[pi]:
                    if any(d in o for o in ids):
                        classes.append("cross_phase_dep")
                    else:
                        classes.append("dangling_dep")
                if d == s["id"]:
                    classes.append("self_loop")
            if s["kind"].startswith("switch:"):
                classes.append("switch")
            if s["kind"].startswith("flag:"):
                classes.append("flag")
    ctx.note(case, nedges >= 2, sorted(set(classes)))
    if sub == "exhaustive":
        ctx.count("exhaustive_cases")
    msg = check_case(case)
    if msg is not None:
        ctx.fail(sub, case, msg, sig=sig_of(msg))


# ---------------------------------------------------------------- random part

@st.composite
def random_method(draw):
    nph = draw(st.integers(1, 3))
    names = ["ph%d" % i for i in range(nph)]
    sizes = [draw(st.integers(1, 12 if i == 0 else 5)) for i in range(nph)]
    # ids drawn from a shuffled pool so that id order and topological order are uncorrelated
    pool = draw(st.permutations(["n%02d" % i for i in range(20)]))
    share = draw(st.booleans())
    phases = []
    allids = []
    off = 0
    for i in range(nph):
        if share:
            ids = list(pool[:sizes[i]])
        else:
            ids = list(pool[off:off + sizes[i]])
            off += sizes[i]
        allids.append(ids)
    acyclic = draw(st.integers(0, 9)) < 7
    for i in range(nph):
        ids = allids[i]
        order = list(draw(st.permutations(ids)))
        stmts = []
        for k, sid in enumerate(order):
            if acyclic:
                cand = order[:k]
            else:
                cand = order
            deps = draw(st.lists(st.sampled_from(cand), unique=True, max_size=3)) if cand else []
            r = draw(st.integers(0, 39))
            if r == 0:
                deps.append("dangling")
            elif r == 1 and nph > 1:
                other = [x for j, o in enumerate(allids) if j != i for x in o]
                deps.append(draw(st.sampled_from(other)))
            elif r == 2:
                deps.append(sid)
            kind = "assign"
            r2 = draw(st.integers(0, 19))
            if r2 == 0:
                kind = "switch:" + draw(st.sampled_from(names + ["missing"]))
            elif r2 in (1, 2):
                kind = "flag:" + draw(st.sampled_from(["c", "d", "c", "c:1", "c:3"]))
            elif r2 == 3:
                kind = "flagcall:" + draw(st.sampled_from(["c", "c", "d"]))
            elif r2 == 4:
                kind = "gflag:" + draw(st.sampled_from(["c:c", "c:!c", "c:d", "d:c", "c:c"]))
            stmts.append({"id": sid, "deps": sorted(set(deps)), "kind": kind})
        stmts = list(draw(st.permutations(stmts)))
        phases.append(phase(names[i], draw(st.sampled_from(names)), stmts))
    return {"initial": names[0], "phases": phases}


def random_shard(ctx, n):
    hyp_explore(ctx, random_method(), lambda case: one(ctx, case, "random"), n, "random")


def run(ctx):
    quick = ctx.quick
    shards = 16
    ctx.parallel(exhaustive_shard, shards, quick)
    total = 0
    for tag, gen in all_spaces(quick):
        if tag[0] == "A":
            total += 2 ** (tag[1] ** 2)
        elif tag[0] == "B":
            total += (2 ** (tag[1] + 2)) ** tag[1]
        else:
            total += (2 ** tag[1]) ** tag[1] * 20
    ctx.extra["exhaustive"] = ctx.extra.get("exhaustive_cases") == total and not ctx.timed_out
    ctx.extra["exhaustive_space"] = "%d methods (spaces A, B, C as in the rule)" % total
    ctx.parallel(random_shard, shards, 250 if quick else 20000)

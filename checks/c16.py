"""C16 - fusing two methods runs both on shared persistent state without interference."""
import copy

from hypothesis import strategies as st

from vlib import backends as B
from vlib import tree as T
from vlib.progen import count_ops, method_features, methods, op_trees, walk_ops
from vlib.refexec import is_persistent, make_python_functions, run_reference
from vlib.runner import hyp_explore

LEVEL = "exploration"
RULE = ("Hypothesis-generated pairs of builder programs (A, B) with the same phase names, initial phase and default "
        "successors, drawn from the same name pools so temporaries, loop counters, guard flags and statement ids clash "
        "on purpose; persistent variables written by either are made private (B's get a suffix), <t>, <dt> and unwritten "
        "<state> inputs are shared and read-only; guards (if/else), loops and calls, no early exits; predicate = none / "
        "'rename non-persistent names' / a predicate that keeps one clashing temporary shared. Structural oracle: "
        "|fused| = |A|+|B| per phase, unique ids, A unchanged, B equal to the fused tail under an injective variable "
        "renaming (identity on persistent names and on names the predicate rejects, images disjoint from A's names) and "
        "an id renaming applied to depends_on, guards and loop counters renamed consistently. Behavioural oracle: "
        "interpreter on A alone, B alone and the fusion for 1-3 steps: private persistent variables agree. Non-trivial = "
        "A and B share >= 1 temporary name and >= 1 statement id and each has a guard or a loop; distinct by canonical JSON.")
ASSUMPTIONS = ["the two methods write disjoint persistent variables and do not assign <t>/<dt> (the property's premise)",
               "the interpreter is taken as the executor (validated by C01)"]
BUDGET_S = {"quick": 150, "thorough": 1500}

BASE = dict(exits=False, yields=True, time_advance=False, alias_arrays=False, max_ops=7, max_phases=2,
            dead_code=False, raise_=False,
            extra_kinds=("if", "if", "if", "if", "newarr", "newarr", "arrwrite", "arrwrite", "arrwrite"))


@st.composite
def pairs(draw):
    # one method's loop counter is the other method's ordinary temporary (and vice versa)
    from vlib.progen import REAL_TEMPS
    a = draw(methods(dict(BASE, loop_vars=["i", "l"], real_temps=REAL_TEMPS + ["j", "x_0", "z_0"], name_pool="adversarial")))
    force = [(p["name"], p["next"]) for p in a["phases"]]
    b = draw(methods(dict(BASE, force_phases=force, loop_vars=["j", "i"], real_temps=REAL_TEMPS + ["l", "x_0", "z_0"],
                          name_pool="adversarial")))
    pred = draw(st.sampled_from(["none", "nonpersistent", "nonpersistent", "keep_one", "also_p", "only_one", "only_one"]))
    # a phase that exists in one method only (must be taken over unchanged); nothing points to it
    extra = draw(st.sampled_from(["none", "none", "a", "b", "both"]))
    first = a["phases"][0]["name"]
    if extra in ("a", "both"):
        ea = draw(methods(dict(BASE, force_phases=[("only_a", first)])))
        a = dict(a, phases=a["phases"] + ea["phases"])
    if extra in ("b", "both"):
        eb = draw(methods(dict(BASE, force_phases=[("only_b", first)])))
        b = dict(b, phases=b["phases"] + eb["phases"])
    return {"a": a, "b": b, "pred": pred, "steps": draw(st.integers(1, 3))}


def written_persistent(method):
    out = set()
    for ph in method["phases"]:
        for op in walk_ops(ph["body"]):
            if op[0] == "assign" and is_persistent(op[1]):
                out.add(op[1])
            if op[0] == "call":
                out.update(n for n in op[1] if is_persistent(n))
    return out


def all_names(method):
    out = set()
    for ph in method["phases"]:
        for op in walk_ops(ph["body"]):
            if op[0] == "assign":
                out.add(op[1])
                out.update(l[0] for l in op[4])
            if op[0] == "call":
                out.update(op[1])
            for t in op_trees(op):
                out |= T.variables(t)
    return out


def rename_method(method, ren):
    m = copy.deepcopy(method)

    def tr(t):
        if t[0] == "var":
            return ["var", ren.get(t[1], t[1])]
        return T.rebuild(t, [tr(c) for c in T.children(t)])

    def walk(ops):
        for op in ops:
            k = op[0]
            if k == "assign":
                op[1] = ren.get(op[1], op[1])
                op[3] = tr(op[3])
                if op[2]:
                    op[2] = [tr(x) for x in op[2]]
                op[4] = [[l[0], tr(l[1]), tr(l[2])] for l in op[4]]
            elif k == "call":
                op[1] = [ren.get(n, n) for n in op[1]]
                op[3] = [tr(a) for a in op[3]]
                op[4] = {n: tr(v) for n, v in op[4].items()}
            elif k == "if":
                op[1] = tr(op[1])
                walk(op[2])
                if op[3]:
                    walk(op[3])
            elif k == "yield":
                op[1] = tr(op[1])
                op[3] = tr(op[3])
    for ph in m["phases"]:
        walk(ph["body"])
    for n in list(m["state"]):
        full = "<state>" + n
        if full in ren:
            m["state"][ren[full][7:]] = m["state"].pop(n)
    return m


def prepare(case):
    """Make persistent variables written by A or B private to B by renaming them in B."""
    a, b = case["a"], case["b"]
    wa, wb = written_persistent(a), written_persistent(b)
    ren = {n: n + "B" for n in (wa | wb) if n not in ("<t>", "<dt>")}
    if case["pred"] == "also_p":
        # here it is the fusion that is asked to keep the <p> variables apart
        ren = {n: v for n, v in ren.items() if not n.startswith("<p>")}
    b2 = rename_method(b, ren)
    return a, b2


def union_state(a, b):
    s = dict(a["state"])
    for n, v in b["state"].items():
        if n in s and s[n] != v:
            # shared read-only input with different drawn values: take A's
            continue
        s.setdefault(n, v)
    return s


def predicate(kind, a_names, b_names):
    if kind == "none":
        return None, (lambda n: not is_persistent(n))
    if kind == "nonpersistent":
        f = lambda n: not is_persistent(n)   # noqa: E731
        return f, f
    if kind == "also_p":
        # the caller asks for the second method's <p> variables to be kept apart as well
        f = lambda n: not is_persistent(n) or n.startswith("<p>")   # noqa: E731
        return f, f
    clash = sorted(n for n in a_names & b_names if not is_persistent(n) and not n.startswith("<cond>"))
    if kind == "only_one":
        # the caller wants a single clashing name kept apart and nothing else touched - preferably one whose
        # obvious replacement (name_0) the second method already uses
        pick = [n for n in clash if n + "_0" in (a_names | b_names)] or clash
        one = pick[0] if pick else None
        f = lambda n: n == one   # noqa: E731
        return f, f
    keep = clash[0] if clash else None
    f = lambda n: not is_persistent(n) and n != keep   # noqa: E731
    return f, f


def stmt_trees(s):
    """All expression fields of a statement as trees, plus names in string fields."""
    k = type(s).__name__
    out = {"kind": k, "cond": None if getattr(s, "condition", True) is True else T.from_pymbolic(s.condition)}
    if k == "Assign":
        out["lhs"] = s.assignee
        out["sub"] = [T.from_pymbolic(x) for x in s.assignee_subscript] if s.assignee_subscript else []
        out["rhs"] = T.from_pymbolic(s.rhs)
        out["loops"] = [(i, T.from_pymbolic(lo), T.from_pymbolic(hi)) for i, lo, hi in s.loops]
    elif k == "AssignFunctionCall":
        out["assignees"] = list(s.assignees)
        out["f"] = s.function_id
        out["args"] = [T.from_pymbolic(p) for p in s.parameters]
        out["kw"] = {n: T.from_pymbolic(v) for n, v in sorted(s.kw_parameters.items())}
    elif k == "YieldState":
        out["expr"] = T.from_pymbolic(s.expression)
        out["time"] = T.from_pymbolic(s.time)
    return out


class Mismatch(Exception):
    pass


def unify_names(x, y, rho):
    if x not in rho:
        rho[x] = y
    elif rho[x] != y:
        raise Mismatch("variable %s is renamed to both %s and %s" % (x, rho[x], y))


def unify_trees(tb, tf, rho):
    if tb is None or tf is None:
        if tb != tf:
            raise Mismatch("guard present on one side only: %s vs %s" % (tb, tf))
        return
    if tb[0] != tf[0]:
        raise Mismatch("different expression: %s vs %s" % (tb, tf))
    if tb[0] == "var":
        unify_names(tb[1], tf[1], rho)
        return
    if tb[0] == "const":
        if tb != tf:
            raise Mismatch("constant changed: %s vs %s" % (tb, tf))
        return
    if tb[0] == "call" and tb[1] != tf[1]:
        raise Mismatch("function changed: %s vs %s" % (tb[1], tf[1]))
    if tb[0] == "cmp" and tb[2] != tf[2]:
        raise Mismatch("operator changed")
    cb, cf = T.children(tb), T.children(tf)
    if len(cb) != len(cf):
        raise Mismatch("arity changed: %s vs %s" % (tb, tf))
    for x, y in zip(cb, cf):
        unify_trees(x, y, rho)


def unify_stmt(sb, sf, rho):
    a, b = stmt_trees(sb), stmt_trees(sf)
    if a["kind"] != b["kind"]:
        raise Mismatch("statement kind changed")
    unify_trees(a["cond"], b["cond"], rho)
    if a["kind"] == "Assign":
        unify_names(a["lhs"], b["lhs"], rho)
        if len(a["sub"]) != len(b["sub"]) or len(a["loops"]) != len(b["loops"]):
            raise Mismatch("subscript/loop structure changed")
        for x, y in zip(a["sub"], b["sub"]):
            unify_trees(x, y, rho)
        unify_trees(a["rhs"], b["rhs"], rho)
        for (i1, lo1, hi1), (i2, lo2, hi2) in zip(a["loops"], b["loops"]):
            unify_names(i1, i2, rho)
            unify_trees(lo1, lo2, rho)
            unify_trees(hi1, hi2, rho)
    elif a["kind"] == "AssignFunctionCall":
        if a["f"] != b["f"] or len(a["assignees"]) != len(b["assignees"]) or len(a["args"]) != len(b["args"]) \
                or sorted(a["kw"]) != sorted(b["kw"]):
            raise Mismatch("call shape changed")
        for x, y in zip(a["assignees"], b["assignees"]):
            unify_names(x, y, rho)
        for x, y in zip(a["args"], b["args"]):
            unify_trees(x, y, rho)
        for n in a["kw"]:
            unify_trees(a["kw"][n], b["kw"][n], rho)


def stmt_names(s):
    st_ = stmt_trees(s)
    out = set()
    for k, v in st_.items():
        if k in ("rhs", "expr", "time", "cond") and v is not None:
            out |= T.variables(v)
        elif k in ("sub", "args"):
            for t in v:
                out |= T.variables(t)
        elif k == "kw":
            for t in v.values():
                out |= T.variables(t)
        elif k == "loops":
            for i, lo, hi in v:
                out.add(i)
                out |= T.variables(lo) | T.variables(hi)
        elif k == "lhs":
            out.add(v)
        elif k == "assignees":
            out.update(v)
    return out


def counters_only(stmts):
    """Names that occur as loop identifiers and are never assigned as variables."""
    counters, assigned = set(), set()
    for s in stmts:
        st_ = stmt_trees(s)
        for i, _lo, _hi in st_.get("loops") or []:
            counters.add(i)
        if st_.get("lhs"):
            assigned.add(st_["lhs"])
        assigned.update(st_.get("assignees") or [])
    return counters - assigned


def check_case(case):
    info = {}
    a, b = prepare(case)
    plan = {"max_steps": case["steps"], "max_events": 30}
    for m in (a, b):
        st_ = run_reference(m, plan)[1]
        if st_.startswith("slip") or st_ == "inexact":
            info["skip"] = st_.split(":")[0]
            return None, info
    try:
        dag_a, dag_b = B.build_dag(a), B.build_dag(b)
    except Exception as e:
        return "CodeBuilder raised %s: %s" % (type(e).__name__, e), info
    a_names = set().union(*[stmt_names(s) for p in dag_a.phases.values() for s in p.statements])
    b_names = set().union(*[stmt_names(s) for p in dag_b.phases.values() for s in p.statements])
    pred_arg, pred = predicate(case["pred"], a_names, b_names)
    info["shared_temps"] = len([n for n in a_names & b_names if not is_persistent(n)])
    info["shared_ids"] = len({s.id for p in dag_a.phases.values() for s in p.statements}
                             & {s.id for p in dag_b.phases.values() for s in p.statements})
    from dagrt.transform import fuse_two_dags
    try:
        fused = fuse_two_dags(dag_a, dag_b, should_disambiguate_name=pred_arg)
    except Exception as e:
        return "fuse_two_dags raised %s: %s" % (type(e).__name__, str(e)[:120]), info
    # ---- structural oracle
    if set(fused.phases) != set(dag_a.phases) | set(dag_b.phases) or fused.initial_phase != dag_a.initial_phase:
        return "fused method has phases %s / initial %s" % (sorted(fused.phases), fused.initial_phase), info
    persistent_image = {}
    for pname in sorted(fused.phases):
        if pname not in dag_a.phases or pname not in dag_b.phases:
            only = dag_a.phases.get(pname) or dag_b.phases.get(pname)
            pf = fused.phases[pname]
            if pf.next_phase != only.next_phase or [str(x) for x in pf.statements] != [str(x) for x in only.statements] \
                    or [(x.id, x.depends_on) for x in pf.statements] != [(x.id, x.depends_on) for x in only.statements]:
                return "phase %s exists in one method only but was changed by the fusion" % pname, info
            info["one_sided_phase"] = True
            continue
        pa, pb, pf = dag_a.phases[pname], dag_b.phases[pname], fused.phases[pname]
        sa, sb, sf = list(pa.statements), list(pb.statements), list(pf.statements)
        if pf.next_phase != pa.next_phase:
            return "phase %s: default successor %s, expected %s" % (pname, pf.next_phase, pa.next_phase), info
        if len(sf) != len(sa) + len(sb):
            return "phase %s: %d fused statements for %d + %d" % (pname, len(sf), len(sa), len(sb)), info
        ids = [s.id for s in sf]
        if len(set(ids)) != len(ids):
            return "phase %s: duplicate statement ids in the fusion" % pname, info
        byid = {s.id: s for s in sf}
        for s in sa:
            f = byid.get(s.id)
            if f is None or str(f) != str(s) or f.depends_on != s.depends_on \
                    or getattr(f, "condition", True) != getattr(s, "condition", True):
                return "phase %s: statement %s of the first method was changed: '%s' -> '%s'" % (pname, s.id, s, f), info
        tail = [s for s in sf if s.id not in {x.id for x in sa}] if len({x.id for x in sa}) == len(sa) else sf[len(sa):]
        if len(tail) != len(sb):
            return "phase %s: cannot identify the second method's statements in the fusion" % pname, info
        rho = {}
        sigma = {}
        for s, f in zip(sb, tail):
            sigma[s.id] = f.id
        for s, f in zip(sb, tail):
            try:
                unify_stmt(s, f, rho)
            except Mismatch as e:
                return "phase %s: second method's statement '%s' became '%s': %s" % (pname, s, f, e), info
            want = frozenset(sigma.get(d, "?" + d) for d in s.depends_on)
            if f.depends_on != want:
                return "phase %s: dependencies of '%s' are %s, expected %s" % (pname, f, sorted(f.depends_on), sorted(want)), info
        inv = {}
        for x, y in rho.items():
            if y in inv and inv[y] != x:
                return "phase %s: renaming is not injective: %s and %s both become %s" % (pname, inv[y], x, y), info
            inv[y] = x
        pa_names = set().union(*[stmt_names(s) for s in sa]) if sa else set()
        for x, y in sorted(rho.items()):
            if not pred(x):
                if y != x:
                    return "phase %s: %s was renamed to %s although %s" % (
                        pname, x, y, "it is persistent" if is_persistent(x) else "the predicate rejects it"), info
            elif y in pa_names:
                return "phase %s: the second method's %s (now %s) collides with a name of the first method" % (pname, x, y), info
        # a persistent variable lives across phases: where the caller's predicate has it renamed, it must become the
        # same name in every phase
        for x, y in rho.items():
            if is_persistent(x):
                if x in persistent_image and persistent_image[x][0] != y:
                    return ("the second method's persistent %s becomes %s in phase %s but %s in phase %s"
                            % (x, persistent_image[x][0], persistent_image[x][1], y, pname)), info
                persistent_image.setdefault(x, (y, pname))
    # ---- behavioural oracle
    if case["pred"] in ("keep_one", "also_p", "only_one"):
        info["behaviour"] = "skipped (shared temporary / renamed persistent variables requested)"
        return None, info
    state = union_state(a, b)
    fm = make_python_functions()

    def run(dag, method_state):
        from dagrt.exec_numpy import NumpyInterpreter
        import numpy as np
        interp = NumpyInterpreter(dag, fm)
        ctx = {n: (np.array(v, dtype=np.float64) if isinstance(v, list) else v) for n, v in method_state.items()}
        interp.set_up(t_start=a["t0"], dt_start=a["dt0"], context=ctx)
        try:
            for i, evt in enumerate(interp.run(max_steps=case["steps"])):
                if i > 40:
                    break
        except Exception as e:
            return {"<raised>": "%s: %s" % (type(e).__name__, str(e)[:60])}
        return {n: B.norm(v) for n, v in interp.context.items() if is_persistent(n)}

    ra, rb, rf = run(dag_a, state), run(dag_b, state), run(fused, state)
    if "<raised>" in ra or "<raised>" in rb:
        info["skip"] = "alone-run raised"
        return None, info
    if "<raised>" in rf:
        return "the fusion fails where both methods run alone: %s" % rf["<raised>"], info
    wa, wb = written_persistent(a), written_persistent(b)
    for who, alone, private in (("first", ra, wa), ("second", rb, wb)):
        for n in sorted(private):
            if alone.get(n) != rf.get(n):
                return "%s method's %s is %s alone but %s in the fusion" % (
                    who, n, B.show(alone.get(n)), B.show(rf.get(n))), info
    info["behaviour"] = "compared"
    return None, info


def sig_of(msg):
    for key in ("raised", "was changed", "became", "dependencies of", "not injective", "was renamed to", "collides",
                "fails where", "alone but", "duplicate", "exists in one method only", "fused statements for", "default successor", "cannot identify"):
        if key in msg:
            if key == "was renamed to":
                return key + (" persistent" if "persistent" in msg else " rejected")
            if key == "became":
                return key + ": " + msg.split(": ")[-1][:30].split(" ")[0]
            return key
    return msg[:40]


def replay(sub, case):
    return check_case(case)[0]


def shrink(sub, case):
    from checks.c01 import shrink_method_case
    sig = sig_of(replay(sub, case) or "")
    for side in ("a", "b"):
        wrapped = {"method": case[side], "plan": {"max_steps": 1}}

        def failing(c, side=side):
            cc = dict(case)
            cc[side] = c["method"]
            return replay(sub, cc)
        out = shrink_method_case(wrapped, failing, sig_of, budget=100)
        case = dict(case)
        case[side] = out["method"]
    return case


def persistent_in_several_phases(case):
    """Is there a <p> variable that both methods mention in some phase (so it is renamed there) and that the second
    method also uses in a phase where the first does not mention it (so it is not renamed there)?  With the
    predicate also_p that shape is the known finding persistent-rename-per-phase."""
    def uses(method):
        out = {}
        for ph in method["phases"]:
            names = set()
            for op in walk_ops(ph["body"]):
                if op[0] == "assign":
                    names.add(op[1])
                if op[0] == "call":
                    names.update(op[1])
                for t in op_trees(op):
                    names |= T.variables(t)
            for n_ in names:
                if n_.startswith("<p>"):
                    out.setdefault(n_, set()).add(ph["name"])
        return out
    ua, ub = uses(case["a"]), uses(case["b"])
    return any((pb & ua.get(n_, set())) and not pb <= ua.get(n_, set()) for n_, pb in ub.items())


def shard(ctx, n):
    excl_rename = ctx.is_excluded("persistent_rename_across_phases")

    def body(case):
        if excl_rename and case["pred"] == "also_p" and persistent_in_several_phases(case):
            ctx.count("excluded_by_known_finding")
            return
        msg, info = check_case(case)
        if "skip" in info:
            ctx.count("skipped_" + info["skip"])
            ctx.note(case, False, ["skipped"])
            return
        fa, fb = method_features(case["a"]), method_features(case["b"])
        both_structured = all(("if" in f or "loop" in f) for f in (fa, fb))
        classes = ["pred_" + case["pred"]]
        if info.get("behaviour") == "compared":
            classes.append("behaviour_compared")
        if info.get("shared_temps"):
            classes.append("shared_temporaries")
        if info.get("one_sided_phase"):
            classes.append("one_sided_phase")
        if "loop" in fa and "loop" in fb:
            classes.append("both_have_loops")
        if "if" in fa and "if" in fb:
            classes.append("both_have_guards")
        nontriv = info.get("shared_temps", 0) >= 1 and info.get("shared_ids", 0) >= 1 and both_structured
        ctx.note(case, nontriv, classes)
        if msg is not None:
            ctx.fail("c16", case, msg, sig=sig_of(msg))

    hyp_explore(ctx, pairs(), body, n, "c16")


def run(ctx):
    if ctx.quick:
        ctx.parallel(shard, 16, 250)
    else:
        ctx.parallel(shard, 16, 6000)

"""C01 - interpreter and generated Python stepper both implement the written program."""
import copy

from hypothesis import strategies as st

from vlib import backends as B
from vlib.progen import count_ops, method_features, methods, walk_ops
from vlib.refexec import run_reference
from vlib.runner import hyp_explore

LEVEL = "exploration"
RULE = ("Hypothesis-generated builder programs (vlib/progen.py: typed, def-before-use; assignments, array loops incl. "
        "zero-trip, two-level and triangular nests, accumulation loops, stencil reads valid only under their guard, if/else nesting <= 3, yields, fail/switch/restart/raise, user functions with "
        "positional/keyword arguments and 0/1/2 results, exact built-ins, 1-3 phases) x initial states x run plans "
        "(max_steps 1-6 or an end time, event cap 60). Three executions are compared exactly: program-order reference "
        "executor (exact rationals), NumpyInterpreter, class emitted by PythonCodeGenerator: events, persistent state "
        "and next phase after every step, kind of raised error. Non-trivial = >= 3 operations and the run took a false "
        "guard / ran a loop / yielded / failed / switched / raised / visited a second phase; distinct by canonical JSON "
        "of (program, initial state, plan). Plus an exhaustive table of 30 special constants (non-finite, NumPy scalars, huge/tiny, "
        "negative zero, complex) x 18 contexts run through interpreter and generated class and compared with plain Python arithmetic.")
ASSUMPTIONS = ["values stay in the exactly representable (dyadic) domain; a run is compared up to the first step in which the reference leaves it",
               "inexact built-ins (norm_2, linear_solve, svd) and print are not generated",
               "phase names are identifier-shaped; <ret_*> names are not generated",
               "loops carry no dependence between iterations (the language implies no iteration order)"]
BUDGET_S = {"quick": 150, "thorough": 1500}

# generator features switched off by known findings (see KNOWN_FINDINGS.txt)
FEATURE_PROFILE = {
    "alias_arrays": {"alias_arrays": False},
}


def plans():
    return st.one_of(
        st.integers(1, 6).map(lambda n: {"max_steps": n, "max_events": 60}),
        st.integers(1, 4).map(lambda k: {"t_end_steps": k, "max_events": 40}),
    )


def resolve_plan(method, plan):
    p = dict(plan)
    if "t_end_steps" in p:
        p["t_end"] = method["t0"] + p.pop("t_end_steps") * method["dt0"]
    return p


def check_case(case):
    """Returns (message or None, info)."""
    method, plan = case["method"], resolve_plan(case["method"], case["plan"])
    info = {}
    ref_hist, ref_status, _ = run_reference(method, plan)
    info["ref_status"] = ref_status.split(":")[0]
    if ref_status.startswith("slip"):
        info["slip"] = ref_status
        return None, info
    ref = B.ref_history_comparable(ref_hist)
    info["steps"] = len(ref)
    info["outcomes"] = sorted({r["outcome"] for r in ref})
    info["phases_run"] = len({r["cur"] for r in ref_hist})
    info["events"] = sum(len(r["events"]) for r in ref)
    info["yielded"] = any(e[0] == "state" for r in ref for e in r["events"])
    try:
        dag = B.build_dag(method)
    except Exception as e:
        return "CodeBuilder/DAGCode raised %s: %s" % (type(e).__name__, str(e)[:120]), info
    results = {}
    bplan = dict(plan)
    if ref_status == "inexact":
        # values have left the exact domain; do not let the back ends run away (x <- x**3 on ints)
        bplan["max_steps"] = min(plan.get("max_steps") or 99, len(ref) + 1)
    for name, runner in (("interpreter", B.run_interpreter), ("generated", B.run_generated)):
        try:
            h, status, _ = runner(dag, method, bplan)
        except Exception as e:
            return "%s: setting up / generating raised %s: %s" % (name, type(e).__name__, str(e)[:160]), info
        results[name] = h
    n = len(ref)
    truncated = ref_status == "inexact"
    pn = B.persistent_names(method)
    B.restrict(ref, pn)
    for h in results.values():
        B.restrict(h, pn)
    for name in ("interpreter", "generated"):
        h = results[name]
        if truncated:
            h = h[:n]
            if len(h) < n:
                return "%s ran %d steps, reference %d" % (name, len(h), n), info
        d = B.first_difference(ref, h, "reference", name)
        if d is not None:
            return d, info
    return None, info


def sig_of(msg):
    import re
    m = re.sub(r"[-0-9.]+", "#", msg)
    m = re.sub(r"\(.*", "", m)
    return m[:60]


def replay(sub, case):
    if sub == "const":
        return check_const(case)[0]
    return check_case(case)[0]


# ---------------------------------------------------------------- special constants (no exact reference: differential
# interpreter / generated class, plus the value plain Python arithmetic gives where that is unambiguous)

SPECIAL_KEYS = ["inf", "-inf", "nan", "np64:inf", "np64:-inf", "np64:nan", "np64:1.5", "np64:-2.5", "np32:0.5", "np32:-0.25",
                "npi64:-3", "npi64:4", "npi32:7", "-0.0", "1e308", "-1e308", "5e-324", "1e-300", "-1e22", "1e22", "0.1", "-0.1",
                "1/3", "2**70", "-2**70", "123456789012345678", "npc:1-2j", "c:-1.5+0.5j", "c:0-1j", "npc64:0.5+2j"]
CONST_CONTEXTS = ["copy", "sum", "prod", "pow", "sub", "cmp", "cmp_rev", "max", "min", "ifexpr", "callarg", "arr", "scale",
                  "quot", "second_phase", "kwarg", "yield_direct", "not_cmp"]


def const_method(key, context):
    K = ["const", ["special", key]]
    r, c = ["var", "<state>r"], "<p>c"
    A = lambda rhs: ["assign", c, None, rhs, []]
    body = {
        "copy": [A(K)],
        "sum": [A(["sum", r, K])],
        "prod": [A(["prod", K, r])],
        "pow": [A(["pow", K, ["const", 2]])],
        "sub": [A(["sum", r, ["prod", ["const", -1], K]])],
        "cmp": [["if", ["cmp", r, "<", K], [A(["const", 1])], [A(["const", 2])]]],
        "cmp_rev": [["if", ["cmp", K, "<=", r], [A(["const", 1])], [A(["const", 2])]]],
        "not_cmp": [["if", ["not", ["cmp", K, ">", r]], [A(["const", 1])], [A(["const", 2])]]],
        "max": [A(["max", K, r])],
        "min": [A(["min", r, K])],
        "ifexpr": [A(["if", ["cmp", K, ">", ["const", 0]], K, r])],
        "callarg": [["call", [c], "<func>g", [K], {}]],
        "kwarg": [["call", [c], "<func>g", [], {"x": K}]],
        "arr": [["call", ["a"], "<builtin>array", [["const", 2]], {}], ["assign", "a", [["const", 0]], K, []],
                ["assign", "a", [["const", 1]], r, []], A(["sum", ["sub", ["var", "a"], [["const", 0]]], ["sub", ["var", "a"], [["const", 1]]]])],
        "scale": [["assign", "<state>y", None, ["prod", K, ["var", "<state>y"]], []], A(["const", 1]),
                  ["yield", ["var", "<state>y"], "y", ["var", "<t>"], "final"]],
        "quot": [A(["quot", r, K])],
        "second_phase": [A(K), ["switch", "other"]],
        "yield_direct": [A(["const", 1]), ["yield", K, "s", ["var", "<t>"], "stage1"]],
    }[context]
    body = body + [["yield", ["var", c], "s", ["var", "<t>"], "final"]] if context != "second_phase" else body
    phases = [{"name": "main", "next": "main", "body": body}]
    if context == "second_phase":
        phases.append({"name": "other", "next": "other",
                       "body": [A(["max", ["var", c], K]), ["yield", ["var", c], "s", ["var", "<t>"], "final"]]})
    return {"phases": phases, "initial": "main", "state": {"r": 1.5, "y": [1.0, -2.0]}, "t0": 0, "dt0": 0.5, "ulen": 2}


def plain_python_value(key, context):
    """What ordinary Python/NumPy arithmetic gives for <p>c; None where that is not clear-cut."""
    import numpy as np
    from vlib.tree import special_constant
    K = special_constant(key)
    r = 1.5
    is_nan = isinstance(K, (float, np.floating)) and K != K
    if isinstance(K, (complex, np.complexfloating)) and context not in ("copy", "sum", "prod", "sub", "quot"):
        return None
    if key == "-0.0" and context in ("quot", "scale", "prod"):
        return None
    if is_nan and context in ("max", "min"):
        return None                      # min/max with NaN depends on argument order in Python and not in NumPy
    try:
        with np.errstate(all="ignore"):
            return {"copy": lambda: K, "sum": lambda: r + K, "prod": lambda: K * r, "sub": lambda: r + (-1) * K,
                    "cmp": lambda: 1 if r < K else 2, "cmp_rev": lambda: 1 if K <= r else 2,
                    "not_cmp": lambda: 1 if not (K > r) else 2, "max": lambda: max(K, r), "min": lambda: min(r, K),
                    "ifexpr": lambda: K if K > 0 else r, "quot": lambda: r / K}[context]()
    except KeyError:
        return None
    except Exception:
        return None


def check_const(case):
    info = {}
    method = const_method(case["const"], case["context"])
    plan = {"max_steps": 2, "max_events": 60}
    try:
        dag = B.build_dag(method)
    except Exception as e:
        return "CodeBuilder/DAGCode raised %s: %s" % (type(e).__name__, str(e)[:120]), info
    import warnings
    results = {}
    with warnings.catch_warnings():
        warnings.simplefilter("ignore")
        for name, runner in (("interpreter", B.run_interpreter), ("generated", B.run_generated)):
            try:
                h, status, _ = runner(dag, method, plan)
            except Exception as e:
                return "%s: setting up / generating raised %s: %s" % (name, type(e).__name__, str(e)[:160]), info
            results[name] = B.restrict(h, B.persistent_names(method))
    d = B.first_difference(results["interpreter"], results["generated"], "interpreter", "generated")
    if d is not None:
        return d, info
    info["outcomes"] = sorted({rec.get("outcome") for rec in results["interpreter"]})
    want = plain_python_value(case["const"], case["context"])
    if want is not None and results["interpreter"] and "state" in results["interpreter"][0]:
        info["expected_checked"] = True
        got = results["interpreter"][0]["state"].get("<p>c")
        if results["interpreter"][0].get("outcome") == "completed" and got != B.norm(want):
            return "<p>c is %s after the first step, plain Python arithmetic gives %s" % (B.show(got), B.show(B.norm(want))), info
    return None, info


COMPLEX_CONTEXTS = {"copy", "sum", "prod", "pow", "sub", "callarg", "kwarg", "scale", "yield_direct"}


def const_cases():
    for key in SPECIAL_KEYS:
        for context in CONST_CONTEXTS:
            if ("c:" in key or "j" in key) and context not in COMPLEX_CONTEXTS:
                continue      # ordering complex numbers is ill-typed; complex division is inexact (NumPy and Python round differently)
            if key == "-0.0" and context in ("prod", "scale"):
                continue      # the builder's flattening treats -0.0 like 0 and drops the product
            yield key, context


def const_shard(ctx, _n):
    for key, context in const_cases():
        if True:
            case = {"const": key, "context": context}
            msg, info = check_const(case)
            classes = ["const_" + context] + ["const_ran_" + str(o) for o in info.get("outcomes", [])]
            if info.get("expected_checked"):
                classes.append("const_expected_checked")
            ctx.note(case, "completed" in info.get("outcomes", []), classes)
            if msg is not None:
                ctx.fail("const", case, msg, sig="const " + context + " " + sig_of(msg))


def shrink(sub, case):
    if sub == "const":
        return case
    return shrink_method_case(case, lambda c: replay(sub, c), sig_of)


def shrink_method_case(case, failing, sig_of, budget=250):
    """Generic ddmin over a method: drop phases' ops, unwrap ifs, shorten the plan."""
    msg = failing(case)
    if msg is None:
        return case
    sig = sig_of(msg)
    left = [budget]

    def still(c):
        if left[0] <= 0:
            return False
        left[0] -= 1
        try:
            if run_reference(c["method"], resolve_plan(c["method"], c["plan"]))[1].startswith("slip"):
                return False
            m = failing(c)
        except Exception:
            return False
        return m is not None and sig_of(m) == sig

    # fewer steps
    if "max_steps" in case["plan"]:
        for n in range(1, case["plan"]["max_steps"]):
            c = copy.deepcopy(case)
            c["plan"]["max_steps"] = n
            if still(c):
                case = c
                break
    changed = True
    while changed and left[0] > 0:
        changed = False
        for path in list(_op_paths(case["method"])):
            c = copy.deepcopy(case)
            if _delete_at(c["method"], path) and still(c):
                case, changed = c, True
                break
            c = copy.deepcopy(case)
            if _unwrap_at(c["method"], path) and still(c):
                case, changed = c, True
                break
    return case


def _op_paths(method):
    def rec(ops, prefix):
        for i in reversed(range(len(ops))):
            yield prefix + (i,)
            if ops[i][0] == "if":
                yield from rec(ops[i][2], prefix + (i, 2))
                if ops[i][3]:
                    yield from rec(ops[i][3], prefix + (i, 3))
    for pi, ph in enumerate(method["phases"]):
        yield from rec(ph["body"], (pi,))


def _container(method, path):
    ops = method["phases"][path[0]]["body"]
    rest = path[1:]
    while len(rest) > 1:
        ops = ops[rest[0]][rest[1]]
        rest = rest[2:]
    return ops, rest[0]


def _delete_at(method, path):
    try:
        ops, i = _container(method, path)
        del ops[i]
        return True
    except (IndexError, TypeError):
        return False


def _unwrap_at(method, path):
    try:
        ops, i = _container(method, path)
        if ops[i][0] != "if":
            return False
        ops[i:i + 1] = list(ops[i][2])
        return True
    except (IndexError, TypeError):
        return False


def profile_for(ctx, base=None):
    prof = dict(base or {})
    for feat, override in FEATURE_PROFILE.items():
        if ctx.is_excluded(feat):
            prof.update(override)
    return prof


def shard(ctx, n, max_ops):
    prof = profile_for(ctx, {"max_ops": max_ops, "reuse_ids": True, "call_in_bounds": True})
    strat = st.fixed_dictionaries({"method": methods(prof), "plan": plans()})

    def body(case):
        msg, info = check_case(case)
        method = case["method"]
        feats = method_features(method)
        classes = []
        if "slip" in info:
            classes.append("generator_slip")
            ctx.count("generator_slips")
            ctx.note(case, False, classes)
            return
        if info.get("ref_status") == "inexact":
            ctx.count("truncated_inexact")
            classes.append("truncated_inexact")
        oc = info.get("outcomes", [])
        for f in ("loop", "zero_trip", "loop2", "else", "nested_if", "fail", "switch", "restart", "raise", "yield",
                  "array", "alias", "whole_array", "matmul", "self_update", "multi_result", "zero_result",
                  "nested_call", "ifexpr", "multi_phase", "uvec_move", "triangular", "recall", "kw_reverse", "if_in_then"):
            if f in feats:
                classes.append("has_" + f)
        for o in oc:
            classes.append("ran_" + o)
        if info.get("phases_run", 0) > 1:
            classes.append("ran_two_phases")
        nontriv = (count_ops(method) >= 3 and info.get("steps", 0) >= 1 and (
            info.get("yielded") or "failed" in oc or "raised" in oc or info.get("phases_run", 0) > 1
            or "loop" in feats or "if" in feats))
        ctx.note(case, bool(nontriv), classes)
        if msg is not None:
            ctx.fail("c01", case, msg, sig=sig_of(msg))

    hyp_explore(ctx, strat, body, n, "c01")


def run(ctx):
    ctx.parallel(const_shard, 1, 0)
    if ctx.quick:
        ctx.parallel(shard, 16, 250, 8)
    else:
        ctx.parallel(shard, 16, 6000, 10)
        ctx.parallel(shard, 16, 1500, 25)

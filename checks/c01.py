"""C01 - interpreter and generated Python stepper both implement the written program."""
import copy

from hypothesis import strategies as st

from vlib import backends as B
from vlib.progen import count_ops, method_features, methods, walk_ops
from vlib.refexec import run_reference
from vlib.runner import hyp_explore

LEVEL = "exploration"
RULE = ("Hypothesis-generated builder programs (vlib/progen.py: typed, def-before-use; assignments, array loops incl. "
        "zero-trip and two-level, if/else nesting <= 3, yields, fail/switch/restart/raise, user functions with "
        "positional/keyword arguments and 0/1/2 results, exact built-ins, 1-3 phases) x initial states x run plans "
        "(max_steps 1-6 or an end time, event cap 60). Three executions are compared exactly: program-order reference "
        "executor (exact rationals), NumpyInterpreter, class emitted by PythonCodeGenerator: events, persistent state "
        "and next phase after every step, kind of raised error. Non-trivial = >= 3 operations and the run took a false "
        "guard / ran a loop / yielded / failed / switched / raised / visited a second phase; distinct by canonical JSON "
        "of (program, initial state, plan).")
ASSUMPTIONS = ["values stay in the exactly representable (dyadic) domain; a run is compared up to the first step in which the reference leaves it",
               "inexact built-ins (norm_2, linear_solve, svd) and print are not generated",
               "phase names are identifier-shaped; <ret_*> names are not generated",
               "loops carry no dependence between iterations (the language implies no iteration order)"]
BUDGET_S = {"quick": 150, "thorough": 1500}

# generator features switched off by known findings (see KNOWN_FINDINGS.txt)
FEATURE_PROFILE = {
    "alias_arrays": {"alias_arrays": False},
}


def plans():
    return st.one_of(
        st.integers(1, 6).map(lambda n: {"max_steps": n, "max_events": 60}),
        st.integers(1, 4).map(lambda k: {"t_end_steps": k, "max_events": 40}),
    )


def resolve_plan(method, plan):
    p = dict(plan)
    if "t_end_steps" in p:
        p["t_end"] = method["t0"] + p.pop("t_end_steps") * method["dt0"]
    return p


def check_case(case):
    """Returns (message or None, info)."""
    method, plan = case["method"], resolve_plan(case["method"], case["plan"])
    info = {}
    ref_hist, ref_status, _ = run_reference(method, plan)
    info["ref_status"] = ref_status.split(":")[0]
    if ref_status.startswith("slip"):
        info["slip"] = ref_status
        return None, info
    ref = B.ref_history_comparable(ref_hist)
    info["steps"] = len(ref)
    info["outcomes"] = sorted({r["outcome"] for r in ref})
    info["phases_run"] = len({r["cur"] for r in ref_hist})
    info["events"] = sum(len(r["events"]) for r in ref)
    info["yielded"] = any(e[0] == "state" for r in ref for e in r["events"])
    try:
        dag = B.build_dag(method)
    except Exception as e:
        return "CodeBuilder/DAGCode raised %s: %s" % (type(e).__name__, str(e)[:120]), info
    results = {}
    bplan = dict(plan)
    if ref_status == "inexact":
        # values have left the exact domain; do not let the back ends run away (x <- x**3 on ints)
        bplan["max_steps"] = min(plan.get("max_steps") or 99, len(ref) + 1)
    for name, runner in (("interpreter", B.run_interpreter), ("generated", B.run_generated)):
        try:
            h, status, _ = runner(dag, method, bplan)
        except Exception as e:
            return "%s: setting up / generating raised %s: %s" % (name, type(e).__name__, str(e)[:160]), info
        results[name] = h
    n = len(ref)
    truncated = ref_status == "inexact"
    pn = B.persistent_names(method)
    B.restrict(ref, pn)
    for h in results.values():
        B.restrict(h, pn)
    for name in ("interpreter", "generated"):
        h = results[name]
        if truncated:
            h = h[:n]
            if len(h) < n:
                return "%s ran %d steps, reference %d" % (name, len(h), n), info
        d = B.first_difference(ref, h, "reference", name)
        if d is not None:
            return d, info
    return None, info


def sig_of(msg):
    import re
    m = re.sub(r"[-0-9.]+", "#", msg)
    m = re.sub(r"\(.*", "", m)
    return m[:60]


def replay(sub, case):
    return check_case(case)[0]


def shrink(sub, case):
    return shrink_method_case(case, lambda c: replay(sub, c), sig_of)


def shrink_method_case(case, failing, sig_of, budget=250):
    """Generic ddmin over a method: drop phases' ops, unwrap ifs, shorten the plan."""
    msg = failing(case)
    if msg is None:
        return case
    sig = sig_of(msg)
    left = [budget]

    def still(c):
        if left[0] <= 0:
            return False
        left[0] -= 1
        try:
            if run_reference(c["method"], resolve_plan(c["method"], c["plan"]))[1].startswith("slip"):
                return False
            m = failing(c)
        except Exception:
            return False
        return m is not None and sig_of(m) == sig

    # fewer steps
    if "max_steps" in case["plan"]:
        for n in range(1, case["plan"]["max_steps"]):
            c = copy.deepcopy(case)
            c["plan"]["max_steps"] = n
            if still(c):
                case = c
                break
    changed = True
    while changed and left[0] > 0:
        changed = False
        for path in list(_op_paths(case["method"])):
            c = copy.deepcopy(case)
            if _delete_at(c["method"], path) and still(c):
                case, changed = c, True
                break
            c = copy.deepcopy(case)
            if _unwrap_at(c["method"], path) and still(c):
                case, changed = c, True
                break
    return case


def _op_paths(method):
    def rec(ops, prefix):
        for i in reversed(range(len(ops))):
            yield prefix + (i,)
            if ops[i][0] == "if":
                yield from rec(ops[i][2], prefix + (i, 2))
                if ops[i][3]:
                    yield from rec(ops[i][3], prefix + (i, 3))
    for pi, ph in enumerate(method["phases"]):
        yield from rec(ph["body"], (pi,))


def _container(method, path):
    ops = method["phases"][path[0]]["body"]
    rest = path[1:]
    while len(rest) > 1:
        ops = ops[rest[0]][rest[1]]
        rest = rest[2:]
    return ops, rest[0]


def _delete_at(method, path):
    try:
        ops, i = _container(method, path)
        del ops[i]
        return True
    except (IndexError, TypeError):
        return False


def _unwrap_at(method, path):
    try:
        ops, i = _container(method, path)
        if ops[i][0] != "if":
            return False
        ops[i:i + 1] = list(ops[i][2])
        return True
    except (IndexError, TypeError):
        return False


def profile_for(ctx, base=None):
    prof = dict(base or {})
    for feat, override in FEATURE_PROFILE.items():
        if ctx.is_excluded(feat):
            prof.update(override)
    return prof


def shard(ctx, n, max_ops):
    prof = profile_for(ctx, {"max_ops": max_ops})
    strat = st.fixed_dictionaries({"method": methods(prof), "plan": plans()})

    def body(case):
        msg, info = check_case(case)
        method = case["method"]
        feats = method_features(method)
        classes = []
        if "slip" in info:
            classes.append("generator_slip")
            ctx.count("generator_slips")
            ctx.note(case, False, classes)
            return
        if info.get("ref_status") == "inexact":
            ctx.count("truncated_inexact")
            classes.append("truncated_inexact")
        oc = info.get("outcomes", [])
        for f in ("loop", "zero_trip", "loop2", "else", "nested_if", "fail", "switch", "restart", "raise", "yield",
                  "array", "alias", "whole_array", "matmul", "self_update", "multi_result", "zero_result",
                  "nested_call", "ifexpr", "multi_phase", "uvec_move"):
            if f in feats:
                classes.append("has_" + f)
        for o in oc:
            classes.append("ran_" + o)
        if info.get("phases_run", 0) > 1:
            classes.append("ran_two_phases")
        nontriv = (count_ops(method) >= 3 and info.get("steps", 0) >= 1 and (
            info.get("yielded") or "failed" in oc or "raised" in oc or info.get("phases_run", 0) > 1
            or "loop" in feats or "if" in feats))
        ctx.note(case, bool(nontriv), classes)
        if msg is not None:
            ctx.fail("c01", case, msg, sig=sig_of(msg))

    hyp_explore(ctx, strat, body, n, "c01")


def run(ctx):
    if ctx.quick:
        ctx.parallel(shard, 16, 150, 8)
    else:
        ctx.parallel(shard, 16, 6000, 10)
        ctx.parallel(shard, 16, 1500, 25)

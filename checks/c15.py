"""C15 - generated source text is a pure function of the method description."""
import hashlib
import json
import os
import random
import subprocess
import sys

from hypothesis import strategies as st

from checks import c03
from vlib.progen import method_features, methods
from vlib.runner import HarnessError, ROOT, REPO, canon, hyp_explore

LEVEL = "exploration"
RULE = ("Hypothesis-generated programs of the Fortran/Python subset (several phases, user-type temporaries, statements with "
        "several read-and-written variables) are serialised by the parent; child processes under PYTHONHASHSEED 0-3 (quick) "
        "/ 0-15 (thorough) rebuild each one with the statement containers as list in program order / reversed / shuffled / "
        "frozenset and the phases dict in given / reversed insertion order, and print sha256 of the Python text, of the "
        "Fortran text (default options, and with instrumentation + tracing on) and of the interpreter's 3-step history. Children walk the program list in opposite directions, so "
        "every program is generated once 'cold' and once after separate generator objects produced code for other programs "
        "in the same process. All digests of a program must be equal; on disagreement the two texts are diffed. "
        "Non-trivial = >= 2 phases, a user-type temporary or a statement with >= 2 read-and-written variables; distinct by "
        "canonical JSON of the program.")
ASSUMPTIONS = ["user types are declared with explicit index_vars (the default draws from a process-global counter: pinned known finding)",
               "the method description is the set of phases with their statements; container and dict orders are not part of it"]
BUDGET_S = {"quick": 240, "thorough": 2400}

CONTAINERS = ["list", "reversed", "shuffled", "frozenset"]
PHASE_ORDERS = ["given", "reversed"]


# ---------------------------------------------------------------- child side

def build(method, container, phase_order, salt):
    from dagrt.language import DAGCode, ExecutionPhase
    from vlib import backends as B
    phases = []
    for ph in method["phases"]:
        cb, _ = B.build_phase(ph)
        stmts = list(cb.statements)
        if container == "reversed":
            stmts = list(reversed(stmts))
        elif container == "shuffled":
            random.Random(salt).shuffle(stmts)
        elif container == "frozenset":
            stmts = frozenset(stmts)
        phases.append(ExecutionPhase(name=ph["name"], next_phase=ph["next"], statements=stmts))
    if phase_order == "reversed":
        phases = list(reversed(phases))
    d = {}
    for p in phases:
        d[p.name] = p
    return DAGCode(d, method["initial"])


def texts(method, container, phase_order, salt, default_index_vars=False):
    import dagrt.codegen.fortran as f
    from dagrt.codegen import PythonCodeGenerator
    from vlib import backends as B
    from vlib import kinds as K
    dag = build(method, container, phase_order, salt)
    out = {}
    try:
        out["python"] = PythonCodeGenerator(class_name="Method")(dag)
    except Exception as e:
        out["python"] = "RAISED %s: %s" % (type(e).__name__, e)
    try:
        if default_index_vars:
            utm = {"y": f.ArrayType((method["ulen"],), f.BuiltinType("real*8"))}
        else:
            utm = {"y": f.ArrayType((method["ulen"],), f.BuiltinType("real*8"), index_vars="i")}
        cg = f.CodeGenerator("m", user_type_map=utm, function_registry=K.make_registry(fortran=True))
        out["fortran"], _ = K.quiet(cg, dag)
    except Exception as e:
        out["fortran"] = "RAISED %s: %s" % (type(e).__name__, e)
    try:
        # non-default configuration: profiling fields/reports per phase and per called function
        utm = {"y": f.ArrayType((method["ulen"],), f.BuiltinType("real*8"), index_vars="i")}
        cg = f.CodeGenerator("m", user_type_map=utm, function_registry=K.make_registry(fortran=True),
                             emit_instrumentation=True, timing_function="second", trace=True)
        out["fortran_instrumented"], _ = K.quiet(cg, dag)
    except Exception as e:
        out["fortran_instrumented"] = "RAISED %s: %s" % (type(e).__name__, e)
    try:
        hist, status, _ = B.run_interpreter(dag, method, {"max_steps": 3, "max_events": 40})
        out["interpreter"] = repr([(r["events"], sorted(r.get("state", {}).items()), r.get("next_phase")) for r in hist])
    except Exception as e:
        out["interpreter"] = "RAISED %s: %s" % (type(e).__name__, e)
    return out


def child_main():
    sys.path.insert(0, ROOT)
    sys.path.insert(0, REPO)
    req = json.load(sys.stdin)
    programs = req["programs"]
    order = list(range(len(programs)))
    if req.get("reverse"):
        order.reverse()
    want_text = req.get("want_text")
    out = {}
    for i in order:
        method = programs[i]
        res = {}
        for c in CONTAINERS:
            for po in PHASE_ORDERS:
                t = texts(method, c, po, i, req.get("default_index_vars", False))
                key = "%s/%s" % (c, po)
                if want_text:
                    res[key] = t
                else:
                    res[key] = {k: hashlib.sha256(v.encode()).hexdigest()[:16] for k, v in t.items()}
        out[str(i)] = res
    json.dump(out, sys.stdout)


def run_child(programs, hashseed, reverse, want_text=False, default_index_vars=False):
    env = dict(os.environ, PYTHONHASHSEED=str(hashseed), PYTHONPATH=ROOT)
    p = subprocess.run([sys.executable, "-W", "ignore", "-c", "from checks.c15 import child_main; child_main()"],
                       input=json.dumps({"programs": programs, "reverse": reverse, "want_text": want_text,
                                         "default_index_vars": default_index_vars}),
                       capture_output=True, text=True, env=env, cwd=ROOT)
    if p.returncode != 0:
        raise HarnessError("c15 child failed: " + p.stderr[-600:])
    return json.loads(p.stdout)


# ---------------------------------------------------------------- parent side

def compare(programs, seeds, default_index_vars=False):
    """Returns list (per program) of message-or-None."""
    runs = []
    for k, h in enumerate(seeds):
        runs.append((h, k % 2 == 1, run_child(programs, h, k % 2 == 1, default_index_vars=default_index_vars)))
    msgs = []
    for i in range(len(programs)):
        base = None
        msg = None
        for h, rev, res in runs:
            for cfg, dig in sorted(res[str(i)].items()):
                label = "hash seed %d, %s, %s" % (h, cfg, "list walked backwards" if rev else "list walked forwards")
                if base is None:
                    base = (label, dig, h, rev, cfg)
                    continue
                for what in ("python", "fortran", "fortran_instrumented", "interpreter"):
                    if dig[what] != base[1][what]:
                        detail = first_diff(programs, i, what, base, (label, dig, h, rev, cfg), default_index_vars)
                        msg = "%s output differs between [%s] and [%s]: %s" % (what, base[0], label, detail)
                        break
                if msg:
                    break
            if msg:
                break
        msgs.append(msg)
    return msgs


def first_diff(programs, i, what, a, b, default_index_vars):
    try:
        ta = run_child(programs, a[2], a[3], want_text=True, default_index_vars=default_index_vars)[str(i)][a[4]][what]
        tb = run_child(programs, b[2], b[3], want_text=True, default_index_vars=default_index_vars)[str(i)][b[4]][what]
    except Exception as e:
        return "(texts not retrievable: %s)" % e
    la, lb = ta.split("\n"), tb.split("\n")
    for k, (x, y) in enumerate(zip(la, lb)):
        if x != y:
            return "line %d: %r vs %r" % (k + 1, x.strip()[:90], y.strip()[:90])
    return "%d vs %d lines" % (len(la), len(lb))


def sig_of(msg):
    what = msg.split(" ")[0]
    kind = "other"
    a = msg.split("[")[1].split("]")[0] if "[" in msg else ""
    b = msg.split("[")[2].split("]")[0] if msg.count("[") >= 2 else ""
    pa, pb = a.split(", "), b.split(", ")
    if len(pa) == 3 and len(pb) == 3:
        if pa[1].split("/")[1:] != pb[1].split("/")[1:]:
            kind = "phase dict order"
        elif pa[1].split("/")[0] != pb[1].split("/")[0]:
            kind = "statement container order"
        elif pa[0] != pb[0] and pa[2] == pb[2]:
            kind = "hash seed"
        else:
            kind = "hash seed or generation history"
    return what + " " + kind


def replay(sub, case):
    if sub == "default_index_vars":
        return compare(case["programs"], [0, 1], default_index_vars=True)[-1]
    return compare([case["method"]] if "method" in case else case["programs"], [0, 1, 2, 3])[-1]


def shard(ctx, n, seeds):
    prof = dict(c03.PROFILE, subscript_whole_array_results=False, minmax_loop_counter=False,
                extra_kinds=("uvec", "uvec", "call"),
                # long names exercise whatever the generators do to keep identifiers short
                real_temps=["x", "z", "acc", "a_rather_long_temporary_name_of_more_than_forty_characters"],
                uvec_temps=["k1", "k2", "stage_value_with_a_name_longer_than_forty_five_characters_a",
                            "stage_value_with_a_name_longer_than_forty_five_characters_b"])
    kept = []

    def body(case):
        kept.append(case["method"])

    hyp_explore(ctx, st.fixed_dictionaries({"method": methods(prof)}), body, n, "c15")
    if not kept:
        return
    msgs = compare(kept, seeds)
    for m, msg in zip(kept, msgs):
        f = method_features(m)
        from vlib.progen import UVEC_TEMPS, walk_ops
        utemp = any(op[0] in ("assign",) and op[1] in UVEC_TEMPS for ph in m["phases"] for op in walk_ops(ph["body"]))
        ctx.note({"method": m}, len(m["phases"]) >= 2 or utemp or "self_update" in f,
                 ["program"] + (["multi_phase"] if len(m["phases"]) >= 2 else []) + (["utype_temp"] if utemp else []))
        ctx.count("configurations_compared", len(seeds) * len(CONTAINERS) * len(PHASE_ORDERS))
        if msg is not None:
            ctx.fail("c15", {"method": m}, msg, sig=sig_of(msg))


def run(ctx):
    if ctx.quick:
        ctx.parallel(shard, 16, 6, [0, 1, 2, 3])
    else:
        ctx.parallel(shard, 16, 40, list(range(16)))

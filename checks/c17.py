"""C17 - a reported expression match is a genuine match."""
import warnings

from hypothesis import strategies as st

from checks.c19 import outcome, points_for
from vlib import tree as T
from vlib.runner import canon, hyp_explore

LEVEL = "exploration"
RULE = ("Hypothesis-generated (template, target) pairs: constructed pairs (template over sums, products, calls with "
        "positional/keyword arguments and repeated variables; target = substitution applied, commutative children "
        "permuted, optionally an identity-matched child deleted) and independent random pairs; free variables "
        "explicit or defaulted, optional bound names, consistent or inconsistent pre-matches. Oracle: ValueError or a "
        "substitution with keys within the free names, agreeing with the pre-match, and sigma(template) == target at "
        "8 exact rational points x 2 random-oracle interpretations of the function symbols. Non-trivial = match "
        "returned a substitution that binds >= 2 variables, or binds one to the identity element, or the target's "
        "children were permuted; distinct by canonical JSON.")
ASSUMPTIONS = ["completeness of matching is not asserted (the unifier documents limited support for identities)",
               "function symbols are interpreted by a deterministic random oracle; distinct terms collide with negligible probability"]
BUDGET_S = {"quick": 90, "thorough": 1200}

FREE_POOL = ["a", "b", "c", "t", "y", "h"]
BOUND_POOL = ["k1", "k2"]
TFUNCS = ["f", "g"]
TARGET_VARS = ["aa", "bb", "tt", "yy", "hh", "k1", "k2"]
TARGET_FUNCS = ["ff", "gg", "f", "g"]
KW = ["t", "y", "n"]


@st.composite
def template(draw, depth):
    if depth <= 0:
        return draw(st.one_of(
            st.sampled_from(FREE_POOL).map(lambda n: ["var", n]),
            st.sampled_from(FREE_POOL).map(lambda n: ["var", n]),
            st.sampled_from(BOUND_POOL).map(lambda n: ["var", n]),
            st.sampled_from([2, 3, -1]).map(lambda c: ["const", c])))
    k = draw(st.sampled_from(["sum", "sum", "prod", "prod", "call", "leaf"]))
    if k == "leaf":
        return draw(template(0))
    if k in ("sum", "prod"):
        n = draw(st.sampled_from([2, 2, 2, 3]))
        return [k] + [draw(template(depth - 1)) for _ in range(n)]
    f = draw(st.sampled_from(TFUNCS))
    args = [draw(template(depth - 1)) for _ in range(draw(st.integers(0, 2)))]
    kws = draw(st.lists(st.sampled_from(KW), unique=True, max_size=2))
    return ["call", f, args, {n: draw(template(depth - 1)) for n in kws}]


@st.composite
def small_target(draw):
    leaf = st.one_of(st.sampled_from(TARGET_VARS).map(lambda n: ["var", n]),
                     st.sampled_from([2, 5, -3]).map(lambda c: ["const", c]))
    k = draw(st.sampled_from(["leaf", "leaf", "leaf", "sum", "prod", "call"]))
    if k == "leaf":
        return draw(leaf)
    if k in ("sum", "prod"):
        return [k, draw(leaf), draw(leaf)]
    return ["call", draw(st.sampled_from(TARGET_FUNCS)), [draw(leaf)], {}]


def simplify_identities(t):
    ch = [simplify_identities(c) for c in T.children(t)]
    t = T.rebuild(t, ch)
    if t[0] == "prod":
        rest = [c for c in t[1:] if c != ["const", 1]]
        if len(rest) != len(t) - 1 and rest:
            return rest[0] if len(rest) == 1 else ["prod"] + rest
    if t[0] == "sum":
        rest = [c for c in t[1:] if c != ["const", 0]]
        if len(rest) != len(t) - 1 and rest:
            return rest[0] if len(rest) == 1 else ["sum"] + rest
    return t


def permute(t, draw):
    ch = [permute(c, draw) for c in T.children(t)]
    t = T.rebuild(t, ch)
    if t[0] in ("sum", "prod") and len(t) > 2:
        perm = draw(st.permutations(list(range(len(t) - 1))))
        t = [t[0]] + [t[1 + i] for i in perm]
    return t


def flat_children(t):
    out = []
    for c in t[1:]:
        if c[0] == t[0]:
            out.extend(flat_children(c))
        else:
            out.append(c)
    return out


def cap_width(t, cap=5):
    """Matching is exponential in the number of children of an associative-commutative node (after
    flattening): keep at most `cap` of them, so that a case costs milliseconds, not minutes."""
    if t[0] in ("sum", "prod"):
        ch = [cap_width(c, cap) for c in flat_children(t)]
        ch = ch[:cap]
        return ch[0] if len(ch) == 1 else [t[0]] + ch
    return T.rebuild(t, [cap_width(c, cap) for c in T.children(t)])


def ac_weight(t):
    """Rough count of the ways the unifier can pair up the children of the AC nodes of t."""
    import math
    w = 1
    if t[0] in ("sum", "prod"):
        w = math.factorial(len(flat_children(t)))
        for c in flat_children(t):
            w *= ac_weight(c)
        return w
    for c in T.children(t):
        w *= ac_weight(c)
    return w


def cap_weight(t, limit=48):
    """Narrow the widest AC node until the weight is at most `limit` (the matcher's cost grows with it)."""
    t = cap_width(t)
    while ac_weight(t) > limit:
        widest = [0, None]

        def find(n):
            if n[0] in ("sum", "prod") and len(n) - 1 > widest[0]:
                widest[0], widest[1] = len(n) - 1, n
            for c in T.children(n):
                find(c)
        find(t)
        n = widest[1]
        if n is None:
            break
        if len(n) <= 3:
            # only binary AC nodes left: replace one of them by its first child
            t = _collapse_one_ac(t)[0]
            continue
        del n[-1]
    return t


def _collapse_one_ac(t):
    """(tree with the last AC node in pre-order replaced by its first child, done?)"""
    ch = T.children(t)
    for i in reversed(range(len(ch))):
        new, done = _collapse_one_ac(ch[i])
        if done:
            ch = list(ch)
            ch[i] = new
            return T.rebuild(t, ch), True
    if t[0] in ("sum", "prod"):
        return t[1], True
    return t, False


def _perturb_call_function(t, draw):
    calls = []

    def find(n, path):
        if n[0] == "call":
            calls.append(path)
        for i, ch in enumerate(T.children(n)):
            find(ch, path + (i,))
    find(t, ())
    if not calls:
        return t
    path = draw(st.sampled_from(calls))

    def edit(n, p):
        if not p:
            other = [f for f in TARGET_FUNCS if f != n[1]]
            return ["call", draw(st.sampled_from(other)), n[2], n[3] if len(n) > 3 else {}]
        ch = list(T.children(n))
        ch[p[0]] = edit(ch[p[0]], p[1:])
        return T.rebuild(n, ch)
    return edit(t, path)


def _perturb_call_keywords(t, draw):
    calls = []

    def find(n, path):
        if n[0] == "call":
            calls.append(path)
        for i, ch in enumerate(T.children(n)):
            find(ch, path + (i,))
    find(t, ())
    if not calls:
        return t
    path = draw(st.sampled_from(calls))

    def edit(n, p):
        if not p:
            kw = dict(n[3]) if len(n) > 3 else {}
            if kw and draw(st.booleans()):
                kw.pop(sorted(kw)[0])
            else:
                kw["extra"] = ["var", draw(st.sampled_from(TARGET_VARS))]
            return ["call", n[1], n[2], kw]
        ch = list(T.children(n))
        ch[p[0]] = edit(ch[p[0]], p[1:])
        return T.rebuild(n, ch)
    return edit(t, path)


@st.composite
def constructed(draw):
    tpl = cap_weight(draw(st.integers(1, 3).flatmap(template)))
    tvars = sorted(T.variables(tpl))
    tfuncs = sorted(T.variables(tpl, include_functions=True) - set(tvars))
    free = [v for v in tvars if v in FREE_POOL and draw(st.integers(0, 9)) < 8]
    free_funcs = [f for f in tfuncs if draw(st.integers(0, 9)) < 3]
    theta = {}
    identity_used = False
    for v in free:
        r = draw(st.integers(0, 9))
        if r == 0:
            theta[v] = ["const", 1]
            identity_used = True
        elif r == 1:
            theta[v] = ["const", 0]
            identity_used = True
        else:
            theta[v] = draw(small_target())
    for f in free_funcs:
        theta[f] = ["var", draw(st.sampled_from(TARGET_FUNCS))]
    target = T.substitute(tpl, theta)
    if ac_weight(target) > 1000:
        # substituting sums into sums widened the AC nodes too much: bind to leaves instead
        theta = {v: (e[1] if e[0] in ("sum", "prod") else e) for v, e in theta.items()}
        target = T.substitute(tpl, theta)
    if identity_used:
        target = simplify_identities(target)
    if draw(st.integers(0, 9)) == 0:
        # one call of the target names another function than its counterpart: when the template's symbol is free and
        # occurs several times, no single binding can serve all of them
        target = _perturb_call_function(target, draw)
    if draw(st.integers(0, 9)) == 0:
        # a call of the target gets a keyword argument its counterpart in the template does not have (or loses
        # one): the two can no longer be equal under any substitution
        target = _perturb_call_keywords(target, draw)
    before = canon(target)
    if draw(st.booleans()):
        target = permute(target, draw)
    permuted = canon(target) != before
    mode = draw(st.sampled_from(["explicit", "explicit", "default", "default_bound"]))
    case = {"kind": "constructed", "template": tpl, "target": target, "permuted": permuted,
            "kw_reverse_template": draw(st.booleans()), "kw_reverse_target": draw(st.booleans()),
            "strings": draw(st.integers(0, 3)) == 0}
    if mode == "explicit":
        case["free"] = sorted(free + free_funcs)
    elif mode == "default_bound":
        case["bound"] = sorted(set(tvars + tfuncs) - set(free) - set(free_funcs))
    pm = draw(st.integers(0, 9))
    cand = sorted(theta)
    if cand and pm < 3:
        names = draw(st.lists(st.sampled_from(cand), unique=True, min_size=1, max_size=2))
        case["pre_match"] = {n: theta[n] for n in names}
    elif cand and pm == 3:
        n = draw(st.sampled_from(cand))
        case["pre_match"] = {n: draw(small_target())}
    elif pm == 4:
        case["pre_match"] = {draw(st.sampled_from(FREE_POOL + BOUND_POOL)): draw(small_target())}
    if mode == "default_bound" and case.get("bound") and draw(st.integers(0, 9)) < 3:
        # a pre-match for a name that was declared bound: it is not a candidate for matching
        nb = draw(st.sampled_from(case["bound"]))
        case["pre_match"] = dict(case.get("pre_match", {}), **{nb: draw(small_target())})
    return case


@st.composite
def random_pair(draw):
    tpl = cap_weight(draw(st.integers(0, 2).flatmap(template)))
    tgt = cap_weight(draw(st.one_of(st.integers(0, 2).flatmap(template), small_target())))
    case = {"kind": "random", "template": tpl, "target": tgt, "permuted": False,
            "kw_reverse_template": draw(st.booleans()), "kw_reverse_target": draw(st.booleans())}
    if draw(st.booleans()):
        names = sorted(T.variables(tpl, include_functions=True))
        case["free"] = sorted(draw(st.lists(st.sampled_from(names), unique=True))) if names else []
    return case


def backticked_text(e):
    """The expression as text with every name in backticks (fully parenthesised), if dagrt's parser reads that back
    as the same expression; else None (then the object is passed).  match() documents strings for the template,
    the expression and the pre-match values."""
    import pymbolic.primitives as p

    def pr(x):
        if isinstance(x, p.Variable):
            return "`%s`" % x.name
        if isinstance(x, p.Sum):
            return "(" + " + ".join(pr(c) for c in x.children) + ")"
        if isinstance(x, p.Product):
            return "(" + " * ".join(pr(c) for c in x.children) + ")"
        if isinstance(x, p.CallWithKwargs):
            args = [pr(a) for a in x.parameters] + ["%s=%s" % (k, pr(v)) for k, v in x.kw_parameters.items()]
            return "%s(%s)" % (pr(x.function), ", ".join(args))
        if isinstance(x, p.Call):
            return "%s(%s)" % (pr(x.function), ", ".join(pr(a) for a in x.parameters))
        if isinstance(x, (int, float)) and not isinstance(x, bool):
            return "(%r)" % x
        raise ValueError(x)
    # The text denotes e by construction (every operator application is parenthesised, every name quoted); how the
    # parser groups a chain of sums does not matter to the value-based oracle.  (Validated once against the unchanged
    # parser: all of 6000 generated templates and targets read back to an expression equal up to flattening.)  No
    # filter through the parser here: a parser that misreads the text must show, not be bypassed.
    try:
        return pr(e)
    except ValueError:
        return None


def run_match(case):
    from dagrt.expression import match
    kwargs = {}
    if "free" in case:
        kwargs["free_variable_names"] = list(case["free"])
    if "bound" in case:
        kwargs["bound_variable_names"] = list(case["bound"])
    as_text = (lambda e: backticked_text(e) or e) if case.get("strings") else (lambda e: e)
    if "pre_match" in case:
        kwargs["pre_match"] = {n: as_text(T.to_pymbolic(v)) for n, v in case["pre_match"].items()}
    with warnings.catch_warnings():
        warnings.simplefilter("ignore")
        # keyword arguments of the two sides written in name order or reversed, independently
        T.set_kw_order(case.get("kw_reverse_template", False))
        tpl = T.to_pymbolic(case["template"])
        T.set_kw_order(case.get("kw_reverse_target", False))
        tgt = T.to_pymbolic(case["target"])
        T.set_kw_order(False)
        return match(as_text(tpl), as_text(tgt), **kwargs)


def check_case(case):
    """Returns (message or None, info dict)."""
    info = {"matched": False}
    if case.get("strings"):
        # the documented string forms must behave like the objects they denote: same verdict (match / no match)
        def verdict(c_):
            try:
                return ("match", run_match(c_))
            except ValueError:
                return ("no match", None)
            except Exception as e:
                return ("raised " + type(e).__name__, None)
        vs, vo = verdict(case), verdict(dict(case, strings=False))
        if vs[0] != vo[0]:
            return ("match() gives '%s' when template, expression and pre-match values are passed as strings, '%s' when "
                    "they are passed as the expressions those strings denote" % (vs[0], vo[0])), info
    try:
        sigma = run_match(case)
    except ValueError:
        return None, info
    except Exception as e:
        return "match raised %s instead of ValueError: %s" % (type(e).__name__, str(e)[:120]), info
    info["matched"] = True
    tpl, tgt = case["template"], case["target"]
    tall = T.variables(tpl, include_functions=True)
    if "free" in case:
        free = set(case["free"])
    else:
        free = tall - set(case.get("bound", []))
    if not isinstance(sigma, dict):
        return "match returned %r" % (sigma,), info
    if not set(sigma) <= free:
        return "substitution binds non-free name(s) %s" % sorted(set(sigma) - free), info
    try:
        sig_t = {k: T.from_pymbolic(v) for k, v in sigma.items()}
    except ValueError as e:
        return "substitution contains a foreign value: %s" % e, info
    info["nbound"] = len(sig_t)
    info["identity"] = any(v in (["const", 0], ["const", 1]) for v in sig_t.values())
    for k, v in sig_t.items():
        if k in (tall - T.variables(tpl)) and v[0] != "var":
            return "function symbol %s bound to a non-symbol %s" % (k, v), info
    inst = T.substitute(tpl, sig_t)
    names = T.variables(inst) | T.variables(tgt)
    for v in case.get("pre_match", {}).values():
        names |= T.variables(v)
    for v in sig_t.values():
        names |= T.variables(v)          # also of bindings for names the template does not mention
    key = canon(case)
    for env in points_for(key, names):
        for salt in (1, 2):
            a = outcome(inst, env, salt)
            b = outcome(tgt, env, salt)
            if a[0] != "skip" and b[0] != "skip" and a != b:
                return ("sigma(template) differs from the target at %s: %s vs %s; template %s, target %s, sigma %s"
                        % ({k: str(v) for k, v in env.items()}, a, b, T.to_pymbolic(tpl), T.to_pymbolic(tgt),
                           {k: str(v) for k, v in sigma.items()})), info
            for n, pv in case.get("pre_match", {}).items():
                if n not in sig_t:
                    return "pre-matched variable %s is missing from the substitution" % n, info
                if pv[0] == "var" and n in (tall - T.variables(tpl)):
                    if sig_t[n] != pv:
                        return "substitution disagrees with the pre-match for function symbol %s" % n, info
                    continue
                pa = outcome(sig_t[n], env, salt)
                pb = outcome(pv, env, salt)
                if pa[0] != "skip" and pb[0] != "skip" and pa != pb:
                    return ("substitution disagrees with the pre-match for %s: %s vs %s"
                            % (n, T.to_pymbolic(sig_t[n]), T.to_pymbolic(pv))), info
    return None, info


def sig_of(msg):
    for key in ("passed as strings", "instead of ValueError", "non-free", "foreign", "non-symbol", "differs from the target",
                "missing from", "disagrees with the pre-match", "returned"):
        if key in msg:
            return key if key != "instead of ValueError" else msg.split(":")[0]
    return msg[:40]


def replay(sub, case):
    return check_case(case)[0]


def shrink(sub, case):
    from vlib.shrink import shrink_tree
    sig = sig_of(replay(sub, case) or "")

    def mk(field):
        def still(t):
            try:
                m = replay(sub, dict(case, **{field: t}))
            except Exception:
                return False
            return m is not None and sig_of(m) == sig
        return still

    leaves = [["var", "a"], ["var", "aa"], ["const", 2]]
    case = dict(case, template=shrink_tree(case["template"], T.children, T.rebuild, leaves, mk("template"), [300]))
    case = dict(case, target=shrink_tree(case["target"], T.children, T.rebuild, leaves, mk("target"), [300]))
    return case


def shard(ctx, n):
    def body(case):
        msg, info = check_case(case)
        nontriv = info.get("matched") and (info.get("nbound", 0) >= 2 or info.get("identity") or case.get("permuted"))
        classes = [case["kind"], "matched" if info.get("matched") else "no_match"]
        if info.get("identity"):
            classes.append("identity_binding")
        if case.get("permuted") and info.get("matched"):
            classes.append("matched_permuted")
        if "pre_match" in case:
            classes.append("pre_match")
        if "free" not in case:
            classes.append("default_free")
        if "call" in T.kinds(case["template"]):
            classes.append("template_has_call")
        ctx.note(case, bool(nontriv), classes)
        if msg is not None:
            ctx.fail("match", case, msg, sig=sig_of(msg))

    hyp_explore(ctx, st.one_of(constructed(), constructed(), constructed(), random_pair()), body, n, "match")


def run(ctx):
    if ctx.quick:
        ctx.parallel(shard, 8, 800)
    else:
        ctx.parallel(shard, 16, 60000)

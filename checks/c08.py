"""C08 - declared read/write sets cover what a statement really touches."""
from hypothesis import strategies as st

from vlib import backends as B
from vlib import tree as T
from vlib.progen import methods
from vlib.refexec import make_python_functions, run_reference
from vlib.runner import digest, hyp_explore

LEVEL = "exploration"
RULE = ("Statements of Hypothesis-generated builder programs (every kind; guards, subscripts on both sides, loop nests "
        "with variable bounds, positional/keyword call arguments, attribute lookups, yields with expression times) are "
        "executed by the real NumpyInterpreter over 1-3 steps with its variable store replaced by a recording dict; "
        "arrays are snapshotted around each statement to catch element writes. For every executed (statement, state): "
        "reads <= declared reads + writes + loop counters, assigned names <= declared writes + loop counters. "
        "Additionally every statement gets a hand-written-style variant whose guard is the inlined comparison instead "
        "of the builder's flag (guard evaluation recorded), and map_expressions with two identity mappers must leave "
        "sets and fields unchanged. A second generator puts NumPy object arrays of expressions (which dagrt accepts as expressions) "
        "on right-hand sides, in call arguments and in yields. Non-trivial = the statement read a variable outside its right-hand side or is not "
        "a plain Assign; distinct by (statement text, guard).")
ASSUMPTIONS = ["observation through a dict subclass handed to the interpreter and its evaluation mapper (no hooks in /repo)",
               "loop counters are exempt, as the property says"]
BUDGET_S = {"quick": 150, "thorough": 1500}

PROFILE = dict(lookups=True, max_ops=10, alias_arrays=False)


class TooBig(Exception):
    pass


class RecDict(dict):
    def __init__(self, *a, **k):
        dict.__init__(self, *a, **k)
        self.reads = set()
        self.writes = set()
        self.probes = set()

    def __getitem__(self, k):
        self.reads.add(k)
        return dict.__getitem__(self, k)

    def __contains__(self, k):
        self.probes.add(k)
        return dict.__contains__(self, k)

    def __setitem__(self, k, v):
        self.writes.add(k)
        if isinstance(v, (int, float)) and not isinstance(v, bool) and abs(v) > 1e30:
            raise TooBig()              # cut runaway self-updates (x <- x**3 over several steps)
        dict.__setitem__(self, k, v)

    def __delitem__(self, k):
        self.writes.add(k)
        dict.__delitem__(self, k)

    def pop(self, k, *d):
        self.writes.add(k)
        return dict.pop(self, k, *d)

    def reset(self):
        self.reads, self.writes, self.probes = set(), set(), set()

    def touched(self):
        """Names the evaluation looked at: reads, plus membership tests (the evaluation mapper tests "name in context"
        first and silently yields None for a variable that is not set - still an attempt to read it)."""
        return set(self.reads) | {p for p in self.probes if not str(p).startswith(("<func>", "<builtin>"))}


def make_recorder(dag, functions, on_statement):
    import numpy as np
    from dagrt.exec_numpy import NumpyInterpreter

    class Rec(NumpyInterpreter):
        def evaluate_condition(self, stmt):
            ctx = self.context
            ctx.reset()
            self._arrays = {n: (v, v.copy()) for n, v in dict.items(ctx) if isinstance(v, np.ndarray)}
            r = NumpyInterpreter.evaluate_condition(self, stmt)
            self._guard_reads = ctx.touched()
            if not r:
                on_statement(self, stmt, ctx.touched(), set(), False)
            return r

        def _wrap(self, stmt, f):
            ctx = self.context
            try:
                return f(self, stmt)
            finally:
                writes = set(ctx.writes)
                for n, (obj, before) in self._arrays.items():
                    cur = dict.get(ctx, n)
                    if cur is obj and not (np.array_equal(obj, before, equal_nan=True)):
                        writes.add(n)
                on_statement(self, stmt, ctx.touched(), writes, True)

        def exec_Assign(self, stmt):
            return self._wrap(stmt, NumpyInterpreter.exec_Assign)

        def exec_AssignFunctionCall(self, stmt):
            return self._wrap(stmt, NumpyInterpreter.exec_AssignFunctionCall)

        def exec_YieldState(self, stmt):
            return self._wrap(stmt, NumpyInterpreter.exec_YieldState)

        def exec_Raise(self, stmt):
            return self._wrap(stmt, NumpyInterpreter.exec_Raise)

        def exec_FailStep(self, stmt):
            return self._wrap(stmt, NumpyInterpreter.exec_FailStep)

        def exec_SwitchPhase(self, stmt):
            return self._wrap(stmt, NumpyInterpreter.exec_SwitchPhase)

    interp = Rec(dag, functions)
    rd = RecDict()
    interp.context = rd
    interp.eval_mapper.context = rd
    return interp


def loop_counters(stmt):
    return {l[0] for l in getattr(stmt, "loops", [])}


def inline_guards(dag):
    """stmt id -> variant with the <cond> flags in its guard replaced by their defining expressions."""
    from pymbolic import substitute
    out = {}
    for pname, phase in dag.phases.items():
        defs = {}
        for s in phase.statements:
            if type(s).__name__ == "Assign" and s.assignee.startswith("<cond>") and not s.assignee_subscript:
                defs[s.assignee] = s.rhs
        from pymbolic.primitives import Variable
        for s in phase.statements:
            c = getattr(s, "condition", True)
            if c is True or not defs:
                continue
            new = substitute(c, {Variable(k): v for k, v in defs.items()})
            if new != c:
                out[(pname, s.id)] = s.copy(condition=new)
    return out


def check_case(case, collect=None):
    method, plan = case["method"], case["plan"]
    ref_hist, ref_status, _ = run_reference(method, plan)
    if ref_status.startswith("slip"):
        return None, {"skip": ref_status}
    try:
        dag = B.build_dag(method)
    except Exception as e:
        return "CodeBuilder raised %s: %s" % (type(e).__name__, e), {}
    problems = []
    info = {"executed": 0}
    variants = inline_guards(dag)
    from pymbolic.mapper import IdentityMapper
    # -- static: identity mapping leaves sets and fields unchanged
    for pname, phase in dag.phases.items():
        for s in phase.statements:
            for label, mapper in (("lambda e: e", lambda e: e), ("IdentityMapper()", IdentityMapper())):
                try:
                    s2 = s.map_expressions(mapper)
                except Exception as e:
                    problems.append("map_expressions(%s) raised %s on %s: %s" % (label, type(e).__name__, s, e))
                    continue
                if (s2.get_read_variables() != s.get_read_variables()
                        or s2.get_written_variables() != s.get_written_variables()):
                    problems.append("map_expressions(%s) changed the read/write sets of '%s': %s/%s -> %s/%s" % (
                        label, s, sorted(s.get_read_variables()), sorted(s.get_written_variables()),
                        sorted(s2.get_read_variables()), sorted(s2.get_written_variables())))
                if str(s2) != str(s) or getattr(s2, "condition", True) != getattr(s, "condition", True) \
                        or s2.depends_on != s.depends_on or s2.id != s.id:
                    problems.append("map_expressions(%s) changed statement '%s' to '%s'" % (label, s, s2))

    def on_statement(interp, stmt, reads, writes, executed):
        info["executed"] += 1
        R = set(stmt.get_read_variables())
        W = set(stmt.get_written_variables())
        L = loop_counters(stmt)
        bad_r = reads - R - W - L
        bad_w = writes - W - L
        kind = type(stmt).__name__
        rhs_vars = set()
        if kind == "Assign":
            rhs_vars = T.variables(T.from_pymbolic(stmt.rhs))
        nontriv = kind != "Assign" or bool((reads - rhs_vars) - {stmt.assignee if kind == "Assign" else None})
        if collect is not None:
            collect(stmt, nontriv, executed)
        if bad_r:
            problems.append("%s '%s'%s reads %s, declared reads %s writes %s" % (
                kind, stmt, " (guard false)" if not executed else "", sorted(bad_r), sorted(R), sorted(W)))
        if bad_w:
            problems.append("%s '%s' assigns %s, declared writes %s" % (kind, stmt, sorted(bad_w), sorted(W)))
        # hand-written-style guard variant: evaluate its guard only
        v = variants.get((interp._cur_phase, stmt.id))
        if v is not None:
            ctx = interp.context
            saved = (set(ctx.reads), set(ctx.writes), set(ctx.probes))
            ctx.reset()
            try:
                from dagrt.exec_numpy import NumpyInterpreter
                NumpyInterpreter.evaluate_condition(interp, v)
                bad = ctx.touched() - set(v.get_read_variables()) - set(v.get_written_variables())
                if bad:
                    problems.append("%s with hand-written guard '%s': guard reads %s, declared reads %s" % (
                        kind, v.condition, sorted(bad), sorted(v.get_read_variables())))
            except Exception:
                pass
            ctx.reads, ctx.writes, ctx.probes = saved

    interp = make_recorder(dag, make_python_functions(), on_statement)
    interp.set_up(t_start=method["t0"], dt_start=method["dt0"], context=B.initial_context(method))
    orig_rss = interp.run_single_step

    def rss():
        interp._cur_phase = interp.next_phase
        return orig_rss()
    interp.run_single_step = rss
    try:
        n = 0
        for evt in interp.run(max_steps=plan.get("max_steps", 2)):
            n += 1
            if n > 60:
                break
    except (B.MyError, B.OtherError, TooBig):
        pass
    except Exception as e:
        info["exec_error"] = "%s: %s" % (type(e).__name__, str(e)[:80])
    return ("\n".join(sorted(set(problems))) if problems else None), info


def sig_of(msg):
    first = msg.split("\n")[0]
    kind = first.split(" ")[0]
    for key in ("reads", "assigns", "changed the read/write sets", "changed statement", "raised", "guard reads"):
        if key in first:
            return kind + " " + key
    return first[:40]


def replay(sub, case):
    if sub == "container":
        return check_container(case)[0]
    return check_case(case)[0]


# ---------------------------------------------------------------- expression containers
# dagrt accepts NumPy object arrays of expressions wherever an expression is expected (the Python
# printer has map_numpy_array; multi-component right-hand sides are written that way); the variables
# inside are read like any others.

CONTAINER_VARS = ["x", "y", "z", "<state>r", "<p>s", "<dt>", "<t>"]
CONTAINER_PLACES = ["rhs", "rhs_scaled", "rhs_subscripted", "call_arg", "call_kwarg", "yield_expr", "nested",
                    "raw_zero_product", "raw_zero_quotient", "raw_nested_sum"]


def container_cases():
    from vlib.exprgen import typed_exprs
    num, _ = typed_exprs(num_vars=CONTAINER_VARS, funcs=["<func>g"], agg_vars=["arr"], floats=False,
                         with_if=False, with_pow=False, with_quot=False, with_sub=False)
    elems = st.lists(st.integers(0, 2).flatmap(num), min_size=1, max_size=3)
    return st.fixed_dictionaries({"elements": elems, "place": st.sampled_from(CONTAINER_PLACES),
                                  "guarded": st.booleans()})


def check_container(case):
    import numpy as np
    import dagrt.language as lang
    from pymbolic import var
    from pymbolic.primitives import Comparison
    info = {}
    exprs = [T.to_pymbolic(e) for e in case["elements"]]
    arr = np.empty(len(exprs), dtype=object)
    for i, e in enumerate(exprs):
        arr[i] = e
    inside = set()
    for e in case["elements"]:
        inside |= T.variables(e)
    cond = Comparison(var("<t>"), "<", 100) if case["guarded"] else True
    place = case["place"]
    if place == "rhs":
        stmt = lang.Assign(id="s", assignee="out", assignee_subscript=(), expression=arr, condition=cond, depends_on=[])
    elif place == "rhs_scaled":
        stmt = lang.Assign(id="s", assignee="out", assignee_subscript=(), expression=var("<dt>") * arr, condition=cond,
                           depends_on=[])
        inside.add("<dt>")
    elif place == "rhs_subscripted":
        # out[i] <- element of the container selected by a constant index: the whole container is still evaluated
        stmt = lang.Assign(id="s", assignee="out2", assignee_subscript=(0,), expression=exprs[0], condition=cond,
                           depends_on=[])
        inside = T.variables(case["elements"][0]) | {"out2"}
    elif place == "call_arg":
        stmt = lang.AssignFunctionCall(id="s", assignees=("out",), function_id="<func>anyf", parameters=(arr,),
                                       condition=cond, depends_on=[])
    elif place == "call_kwarg":
        stmt = lang.AssignFunctionCall(id="s", assignees=("out",), function_id="<func>anyf", parameters=(var("x"),),
                                       kw_parameters={"v": arr}, condition=cond, depends_on=[])
        inside.add("x")
    elif place == "yield_expr":
        stmt = lang.YieldState(id="s", time=var("<t>"), time_id="final", expression=arr, component_id="y",
                               condition=cond, depends_on=[])
        inside.add("<t>")
    elif place.startswith("raw"):
        # statements made by hand (not through the builder), with right-hand sides that are not in the builder's
        # flattened normal form: terms annihilated by a literal zero, sums directly inside sums
        import pymbolic.primitives as prim
        e0, e1 = exprs[0], exprs[-1]
        if place == "raw_zero_product":
            rhs = prim.Sum((prim.Product((0, e0)), e1))
        elif place == "raw_zero_quotient":
            rhs = prim.Sum((prim.Quotient(0, prim.Sum((e0, 5))), e1))
        else:
            rhs = prim.Sum((prim.Sum((e0, var("y"))), prim.Product((1, e1))))
        stmt = lang.Assign(id="s", assignee="out", assignee_subscript=(), expression=rhs, condition=cond, depends_on=[])
    else:
        outer = np.empty(2, dtype=object)
        outer[0] = var("y") + 1
        outer[1] = exprs[0] * 2
        stmt = lang.Assign(id="s", assignee="out", assignee_subscript=(), expression=outer, condition=cond, depends_on=[])
        inside = T.variables(case["elements"][0]) | {"y"}
    if case["guarded"]:
        inside.add("<t>")
    phase = lang.ExecutionPhase(name="main", next_phase="main", statements=[stmt])
    dag = lang.DAGCode({"main": phase}, "main")
    problems = []
    # the sets are unchanged by mapping the statement's expressions with the identity
    from pymbolic.mapper import IdentityMapper
    for label, mapper in (("lambda e: e", lambda e: e), ("IdentityMapper()", IdentityMapper())):
        try:
            s2 = stmt.map_expressions(mapper)
        except Exception as e:
            if isinstance(mapper, IdentityMapper) and place in ("rhs", "rhs_scaled", "call_arg", "call_kwarg", "yield_expr", "nested"):
                continue        # pymbolic's IdentityMapper has no rule for object arrays; the plain function must work
            problems.append("map_expressions(%s) raised %s on '%s': %s" % (label, type(e).__name__, stmt, str(e)[:80]))
            continue
        if (s2.get_read_variables() != stmt.get_read_variables()
                or s2.get_written_variables() != stmt.get_written_variables()):
            problems.append("map_expressions(%s) changed the read/write sets of '%s': %s/%s -> %s/%s" % (
                label, stmt, sorted(stmt.get_read_variables()), sorted(stmt.get_written_variables()),
                sorted(s2.get_read_variables()), sorted(s2.get_written_variables())))

    def on_statement(interp, st_, reads, writes, executed):
        info["executed"] = executed
        R, W = set(st_.get_read_variables()), set(st_.get_written_variables())
        info["reads"] = sorted(reads)
        if reads - R - W:
            problems.append("%s '%s' reads %s, declared reads %s writes %s" % (
                type(st_).__name__, st_, sorted(reads - R - W), sorted(R), sorted(W)))
        if writes - W:
            problems.append("%s '%s' assigns %s, declared writes %s" % (type(st_).__name__, st_, sorted(writes - W), sorted(W)))

    fm = dict(make_python_functions())
    fm["<func>anyf"] = lambda *a, **k: 1.0
    fm["<func>g"] = lambda *a, **k: 1.5          # generated calls have arbitrary signatures
    interp = make_recorder(dag, fm, on_statement)
    ctx0 = {"x": 2.0, "y": 3.0, "z": -1.0, "<state>r": 0.5, "<p>s": 4.0, "arr": np.array([1.0, 2.0, 3.0]),
            "out2": np.zeros(2),
            # variables named like the functions that are called: functions and variables live in separate name spaces
            "<func>g": 2.5, "<func>anyf": 1.0}
    interp.set_up(t_start=0.0, dt_start=0.5, context={"r": 0.5})
    for k, v in ctx0.items():
        dict.__setitem__(interp.context, k, v)
    interp._cur_phase = "main"
    try:
        for _ in interp.run_single_step():
            pass
    except Exception as e:
        info["exec_error"] = "%s: %s" % (type(e).__name__, str(e)[:80])
    return ("\n".join(sorted(set(problems))) if problems else None), info


def container_shard(ctx, n):
    def body(case):
        msg, info = check_container(case)
        classes = ["container_" + case["place"]] + (["container_interpreter_error"] if "exec_error" in info else [])
        ctx.note(case, bool(info.get("reads")) and "exec_error" not in info, classes)
        if msg is not None:
            ctx.fail("container", case, msg, sig="container " + case["place"] + " " + sig_of(msg))

    hyp_explore(ctx, container_cases(), body, n, "container")


def shrink(sub, case):
    if sub == "container":
        return case
    from checks.c01 import shrink_method_case
    return shrink_method_case(case, lambda c: replay(sub, c), sig_of)


def shard(ctx, n):
    strat = st.fixed_dictionaries({"method": methods(PROFILE),
                                   "plan": st.integers(1, 3).map(lambda k: {"max_steps": k, "max_events": 60})})

    def body(case):
        seen = []

        def collect(stmt, nontriv, executed):
            key = (str(stmt), str(getattr(stmt, "condition", True)))
            ctx.evaluations += 1
            ctx.classes[type(stmt).__name__] += 1
            if not executed:
                ctx.classes["guard_false"] += 1
            if nontriv:
                d = digest(key)
                if d not in ctx.nontrivial:
                    ctx.nontrivial.add(d)
                    if len(ctx.samples) < ctx.MAX_SAMPLES:
                        ctx.samples.append({"statement": key[0], "guard": key[1],
                                            "declared_reads": sorted(stmt.get_read_variables()),
                                            "declared_writes": sorted(stmt.get_written_variables())})

        msg, info = check_case(case, collect)
        if "skip" in info:
            ctx.count("generator_slips")
            return
        ctx.count("programs")
        if "exec_error" in info:
            ctx.count("programs_with_interpreter_error")
        if msg is not None:
            ctx.fail("c08", case, msg, sig=sig_of(msg))

    hyp_explore(ctx, strat, body, n, "c08")


def run(ctx):
    if ctx.quick:
        ctx.parallel(shard, 16, 250)
        ctx.parallel(container_shard, 4, 150)
    else:
        ctx.parallel(shard, 16, 5000)
        ctx.parallel(container_shard, 16, 3000)

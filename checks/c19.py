"""C19 - printing an expression and parsing it back returns the same expression.

Oracle: r = parse(str(e)) succeeds; str(r) == str(e); get_variables agree;
values agree at 8 exact rational points x 2 interpretations of the function
symbols / subscripted aggregates (random oracle).  Second clause: `N` denotes
Variable(N) for every N over [<>:a-zA-Z0-9_]+, alone and inside expressions.
"""
import hashlib
from fractions import Fraction

from hypothesis import strategies as st

from vlib import tree as T
from vlib.exprgen import typed_exprs
from vlib.runner import canon, hyp_explore

LEVEL = "exploration"
RULE = ("Hypothesis-generated well-typed expression trees (tagged identifiers, arithmetic incl. negative constants, "
        "powers, quotients, comparisons, and/or/not, calls with keyword arguments, subscripts, conditional "
        "expressions; depth <= 6, int and float constants) printed with str() and re-parsed; plus backtick names "
        "over [<>:a-zA-Z0-9_]+ alone and embedded. Non-trivial = depth >= 3 and >= 2 distinct operator classes "
        "(for the backtick clause: name contains a character outside [a-zA-Z0-9_]); distinct by canonical JSON. String level: "
        "token soups and templated strings; whatever parse() accepts and maps onto the listed constructs (well-typed) must "
        "round-trip from its own printed form (reaches shapes only the parser produces: unary minus, subtraction, lookups, "
        "redundant parentheses).")
ASSUMPTIONS = ["expressions are well-typed (logical operators over comparisons, arithmetic over numbers)",
               "no complex constants and no min/max nodes (the parser has no such construct)",
               "structural equality is not required (keyword dicts, 1-tuples, sum nesting differ benignly)"]
BUDGET_S = {"quick": 90, "thorough": 1200}

POINT_VALUES = [Fraction(v) for v in (-3, -2, -1, 0, 1, 2, 3, 4, 5)] + [
    Fraction(1, 2), Fraction(-1, 2), Fraction(3, 2), Fraction(1, 4)]


def points_for(case_key, names, n=8):
    out = []
    # two fixed corner points first: everything zero (0**negative, division by zero: both sides must fail alike),
    # everything minus one (sign rules)
    from fractions import Fraction
    out.append({nm: Fraction(0) for nm in names})
    out.append({nm: Fraction(-1) for nm in names})
    for i in range(n):
        env = {}
        for nm in sorted(names):
            h = hashlib.sha256(("%s|%d|%s" % (case_key, i, nm)).encode()).digest()
            env[nm] = POINT_VALUES[h[0] % len(POINT_VALUES)]
        out.append(env)
    return out


def outcome(tree, env, salt):
    try:
        return ("v", T.Evaluator(env, salt=salt)(tree))
    except ZeroDivisionError:
        return ("div0",)
    except T.EvalError as e:
        return ("skip", str(e))
    except OverflowError:
        return ("skip", "overflow")


# ---------------------------------------------------------------- features (known findings)

def has_pow_base_pow(t):
    if t[0] == "pow" and t[1][0] == "pow":
        return True
    return any(has_pow_base_pow(c) for c in T.children(t))


def has_if_in_call_arg(t):
    if t[0] == "call":
        kw = t[3] if len(t) > 3 else {}
        if any(a[0] == "if" for a in t[2]) or any(v[0] == "if" for v in kw.values()):
            return True
    return any(has_if_in_call_arg(c) for c in T.children(t))


def has_unprintable_name(t):
    """A variable whose name is not of the shape [<tag>]identifier: only backticks can express it,
    and str() does not put them back."""
    import re
    return any(re.fullmatch(r"(<[A-Za-z_][A-Za-z0-9_]*>)?[A-Za-z_][A-Za-z0-9_]*|<[A-Za-z_][A-Za-z0-9_]*>", v) is None
               for v in T.variables(t, include_functions=True))


FEATURES = {"pow_base_pow": has_pow_base_pow, "if_in_call_arg": has_if_in_call_arg,
            "unprintable_name": has_unprintable_name}


# ---------------------------------------------------------------- oracle

def _has_multi_kw(t):
    if t[0] == "call" and len(t) > 3 and len(t[3]) >= 2:
        return True
    return any(_has_multi_kw(c) for c in T.children(t))


def check_expr(tree):
    """Keyword arguments are written in name order and, when a call has several, in reverse name order too."""
    for rev in ((False, True) if _has_multi_kw(tree) else (False,)):
        T.set_kw_order(rev)
        try:
            m = _check_expr(tree)
        finally:
            T.set_kw_order(False)
        if m is not None:
            return m + (" [keyword arguments in reverse name order]" if rev else "")
    return None


def _check_expr(tree):
    from dagrt.expression import parse
    from dagrt.utils import get_variables
    e = T.to_pymbolic(tree)
    s = str(e)
    try:
        r = parse(s)
    except Exception as ex:
        return "parse(str(e)) raised %s for %r: %s" % (type(ex).__name__, s, str(ex)[:100])
    s2 = str(r)
    if s2 != s:
        return "re-parsed expression prints differently: %r -> %r" % (s, s2)
    v1 = get_variables(e)
    v2 = get_variables(r)
    if v1 != v2:
        return "variables differ after round trip of %r: %s vs %s" % (s, sorted(v1), sorted(v2))
    try:
        rt = T.from_pymbolic(r)
    except ValueError as ex:
        return "re-parsed expression of %r contains a foreign node: %s" % (s, ex)
    names = T.variables(tree) | T.variables(rt)
    key = canon(tree)
    for env in points_for(key, names):
        for salt in (1, 2):
            a = outcome(tree, env, salt)
            b = outcome(rt, env, salt)
            if a[0] == "skip" or b[0] == "skip":
                continue
            if a != b:
                return ("value differs after round trip of %r at %s: %s vs %s"
                        % (s, {k: str(v) for k, v in env.items()}, a, b))
    return None


def check_backtick(case):
    from pymbolic.primitives import Variable
    from dagrt.expression import parse
    from dagrt.utils import get_variables
    name, ctx_kind = case["name"], case["context"]
    try:
        if ctx_kind == "alone":
            r = parse("`%s`" % name)
            ok = isinstance(r, Variable) and r.name == name
        elif ctx_kind == "sum":
            r = parse("`%s` + 1" % name)
            ok = get_variables(r) == frozenset([name]) and T.from_pymbolic(r) == ["sum", ["var", name], ["const", 1]]
        elif ctx_kind == "arg":
            r = parse("f(`%s`, k=`%s`*2)" % (name, name))
            ok = (get_variables(r) == frozenset([name])
                  and T.from_pymbolic(r) == ["call", "f", [["var", name]], {"k": ["prod", ["var", name], ["const", 2]]}])
        elif ctx_kind == "callee":
            r = parse("`%s`(x)" % name)
            ok = T.from_pymbolic(r) == ["call", name, [["var", "x"]], {}]
        elif ctx_kind == "sub":
            r = parse("`%s`[i] < `%s`" % (name, name))
            ok = T.from_pymbolic(r) == ["cmp", ["sub", ["var", name], [["var", "i"]]], "<", ["var", name]]
        else:
            raise ValueError(ctx_kind)
    except Exception as ex:
        return "backtick name %r in context %s: parse raised %s: %s" % (name, ctx_kind, type(ex).__name__, str(ex)[:100])
    if not ok:
        return "backtick name %r in context %s does not denote Variable(%r): got %r" % (name, ctx_kind, name, r)
    return None


def sig_of(msg):
    return msg.split("'")[0].split('"')[0][:70]


def replay(sub, case):
    if sub == "backtick":
        return check_backtick(case)
    if sub == "string":
        return check_string(case["text"])[0]
    return check_expr(case)


def shrink(sub, case):
    if sub in ("backtick", "string"):
        return case
    from vlib.shrink import shrink_tree
    sig = sig_of(check_expr(case) or "")

    def still(t):
        try:
            m = check_expr(t)
        except Exception:
            return False
        return m is not None and sig_of(m) == sig

    return shrink_tree(case, T.children, T.rebuild, [["var", "x"], ["const", 1]], still, [600])


# ---------------------------------------------------------------- exploration

def expr_shard(ctx, n):
    num, boolean = typed_exprs(bool_literals=True)
    excluded = [f for f in FEATURES if ctx.is_excluded(f)]

    def body(tree):
        for f in excluded:
            if FEATURES[f](tree):
                ctx.count("excluded_by_known_finding")
                ctx.count("excluded_" + f)
                return
        ks = T.kinds(tree)
        d = T.depth(tree)
        ops = ks - {"var", "const"}
        classes = ["expr"] + ["has_" + k for k in sorted(ops)]
        ctx.note(tree, d >= 3 and len(ops) >= 2, classes)
        msg = check_expr(tree)
        if msg is not None:
            ctx.fail("expr", tree, msg, sig=sig_of(msg))

    strat = st.one_of(
        st.integers(1, 5).flatmap(num),
        st.integers(1, 5).flatmap(num),
        st.integers(0, 4).flatmap(boolean),
        st.booleans().map(lambda b: ["const", b]))      # the whole text is just True / False
    hyp_explore(ctx, strat, body, n, "expr")


# ---------------------------------------------------------------- string level: whatever the parser accepts

TOKENS = ["x", "y", "<state>y", "<p>k", "<t>", "<dt>", "f", "<func>f", "`<p>a b`"[:6] + "`", "`a:b`", "arr", "1", "2", "0.5", "3",
          "+", "-", "*", "/", "**", "(", ")", "[", "]", ",", "<", "<=", "==", "!=", ">", "and", "or", "not", "if", "else",
          "k=", "True", "False", ".real", " "]


def string_cases():
    # token soup biased towards well-formed shapes by a few templates
    tok = st.sampled_from(TOKENS)
    soup = st.lists(tok, min_size=1, max_size=14).map(" ".join)
    atom = st.sampled_from(["x", "y", "<state>y", "<p>k", "<t>", "1", "2", "0.5", "-1", "- x", "`<p>k`", "arr[1]", "f(x)",
                            "f(x, k=2)", "<func>f(<t>, y=x)", "(x + 1)", "x.real", "True", "not x < y", "arr[x + 1]"])
    binop = st.sampled_from([" + ", " - ", " * ", " / ", " ** ", " < ", " and ", " or ", " == "])

    @st.composite
    def templ(draw):
        n = draw(st.integers(1, 5))
        s_ = draw(atom)
        for _ in range(n):
            k = draw(st.integers(0, 5))
            if k == 0:
                s_ = "(%s)" % s_
            elif k == 1:
                s_ = "- %s" % s_
            elif k == 2:
                s_ = "%s if %s else %s" % (s_, draw(atom), draw(atom))
            else:
                s_ = s_ + draw(binop) + draw(atom)
        return s_
    return st.one_of(soup, templ(), templ(), templ())


def check_string(text, exclude=()):
    """None, or message; 'skip' results are reported through the info dict."""
    from dagrt.expression import parse
    from dagrt.utils import get_variables
    info = {}
    try:
        r = parse(text)
    except Exception:
        info["rejected"] = True          # not an expression of the language
        return None, info
    try:
        t = T.from_pymbolic(r)
    except ValueError:
        info["foreign"] = True           # tuples, slices, ... : outside the listed constructs
        return None, info
    if "tuple" in T.kinds(t) or any(isinstance(x, list) for x in _consts(t)) or _lookup_of_literal(t):
        info["foreign"] = True           # attribute lookups are not among the listed constructs; on a literal
        return None, info                # ("1 .real") pymbolic prints them as "1.real", which is a float token
    info["tree"] = t
    for f, pred in FEATURES.items():
        if f in exclude and pred(t):
            info["known_shape"] = f
            return None, info
    if nested_comparison(t) or not well_typed(t):
        info["ill_typed"] = True
        return None, info
    return check_expr(t), info


def _lookup_of_literal(t):
    if t[0] == "lookup" and t[1][0] == "const":
        return True
    return any(_lookup_of_literal(c) for c in T.children(t))


def _consts(t):
    if t[0] == "const":
        yield t[1]
    for c in T.children(t):
        yield from _consts(c)


def nested_comparison(t):
    if t[0] == "cmp" and (t[1][0] == "cmp" or t[3][0] == "cmp"):
        return True
    return any(nested_comparison(c) for c in T.children(t))


def well_typed(t, want=None):
    """Arithmetic over numbers, logic over comparisons/booleans (what the property's evaluation clause needs)."""
    k = t[0]
    boolish = k in ("cmp", "and", "or", "not") or (k == "const" and isinstance(t[1], bool))
    if want == "num" and boolish:
        return False
    if want == "bool" and not (boolish or k == "if"):
        return False
    if k in ("sum", "prod", "quot", "pow", "min", "max"):
        return all(well_typed(c, "num") for c in T.children(t))
    if k == "cmp":
        return well_typed(t[1], "num") and well_typed(t[3], "num")
    if k in ("and", "or", "not"):
        return all(well_typed(c, "bool") for c in T.children(t))
    if k == "if":
        return well_typed(t[1], "bool") and well_typed(t[2], want) and well_typed(t[3], want)
    if k in ("call", "sub", "lookup"):
        return all(well_typed(c, "num") for c in T.children(t))
    return True


def string_shard(ctx, n):
    excluded = [f for f in FEATURES if ctx.is_excluded(f)]

    def body(text):
        msg, info = check_string(text, excluded)
        if info.get("rejected"):
            ctx.note({"text": text}, False, ["string_rejected"])
            return
        cls = "string_parsed"
        for k in ("foreign", "known_shape", "ill_typed"):
            if k in info:
                cls = "string_" + k
                if k == "known_shape":
                    ctx.count("excluded_by_known_finding")
        t = info.get("tree")
        ctx.note({"text": text}, cls == "string_parsed" and t is not None and T.depth(t) >= 3, [cls])
        if msg is not None:
            ctx.fail("string", {"text": text}, msg, sig="string " + sig_of(msg))

    hyp_explore(ctx, string_cases(), body, n, "string")


NAME_ALPHABET = "<>:_abzAZ019"


def backtick_shard(ctx, n):
    names = st.one_of(
        st.text(alphabet=NAME_ALPHABET, min_size=1, max_size=10),
        st.sampled_from(["<state>y", "<func>f", "<builtin>len", "<p>last_rhs", "<cond>", "<dt>", "<t>",
                         "a:b", "<<>>", "9lives", "_", "<func>impl:y", "x<y>z", "if", "and", "not", "else"]))
    strat = st.tuples(names, st.sampled_from(["alone", "sum", "arg", "callee", "sub"])).map(
        lambda t: {"name": t[0], "context": t[1]})

    def body(case):
        import re
        nontriv = re.fullmatch(r"[a-zA-Z0-9_]+", case["name"]) is None
        ctx.note(case, nontriv, ["backtick", "backtick_" + case["context"]])
        msg = check_backtick(case)
        if msg is not None:
            ctx.fail("backtick", case, msg, sig=case["context"] + "|" + ("raised" if "raised" in msg else "wrong"))

    hyp_explore(ctx, strat, body, n, "backtick")


def run(ctx):
    if ctx.quick:
        ctx.parallel(expr_shard, 8, 1000)
        ctx.parallel(backtick_shard, 4, 400)
        ctx.parallel(string_shard, 8, 500)
    else:
        ctx.parallel(expr_shard, 16, 80000)
        ctx.parallel(backtick_shard, 16, 5000)
        ctx.parallel(string_shard, 16, 40000)
